// ===== prelude/state.rs — ghost abstract state of the storage (DESIGN.md 4.1) =====
// Pure specification: no executable code, no repository code.  `Snapshot`, `Client`, `Version`
// are the repository's own types (extracted from core/src/storage.rs).

verus! {

pub struct GVersion {
    pub version_id: Uuid,
    pub parent_version_id: Uuid,
    pub history_segment: Seq<u8>,
}

/// Everything the storage holds for one client.
pub struct CState {
    pub exists: bool,
    pub latest: Uuid,
    pub snapshot: Option<Snapshot>,
    pub snapshot_data: Option<Seq<u8>>,
    pub versions: IMap<Uuid, GVersion>,   // by version id
    pub children: IMap<Uuid, Uuid>,       // parent id -> version id
}

pub type Db = IMap<Uuid, CState>;

pub open spec fn absent() -> CState {
    CState { exists: false, latest: nil_id(), snapshot: None, snapshot_data: None,
             versions: IMap::empty(), children: IMap::empty() }
}

/// the state of client `c` in `db` (an absent key is a client that does not exist)
pub open spec fn cs(db: Db, c: Uuid) -> CState {
    if db.dom().contains(c) { db[c] } else { absent() }
}

/// What a transaction sees.
pub struct TxnView {
    pub client_id: Uuid,
    pub durable: Db,            // what other transactions see / what survives dropping this one
    pub cur: Db,                // what this transaction sees
    pub faults: nat,            // storage calls that returned Err in this transaction
    pub dirty: bool,            // an un-committed write was made (in-memory: `written`)
    pub commit_attempted: bool,
    pub opened_for: Uuid,
}

pub open spec fn fresh_txn(t: TxnView, client_id: Uuid) -> bool {
    &&& t.client_id == client_id
    &&& t.cur == t.durable
    &&& !t.dirty
    &&& !t.commit_attempted
}

/// postcondition of opening a transaction (Storage::txn)
pub open spec fn open_post(t: TxnView, client_id: Uuid) -> bool {
    fresh_txn(t, client_id)
}

// ------------------------------------------------------------------ views of repository values

pub open spec fn version_view(v: Version) -> GVersion {
    GVersion { version_id: v.version_id, parent_version_id: v.parent_version_id, history_segment: v.history_segment@ }
}

pub open spec fn client_rec(c: CState) -> Option<Client> {
    if c.exists { Some(Client { latest_version_id: c.latest, snapshot: c.snapshot }) } else { None }
}

// ------------------------------------------------------------------ effects of the storage writes

pub open spec fn new_client_spec(latest: Uuid) -> CState {
    CState { exists: true, latest: latest, snapshot: None, snapshot_data: None,
             versions: IMap::empty(), children: IMap::empty() }
}

pub open spec fn bump(s: Option<Snapshot>) -> Option<Snapshot> {
    match s {
        Some(s) => Some(Snapshot { versions_since: (s.versions_since + 1) as u32, ..s }),
        None => None,
    }
}

/// insert version, insert child link, latest := v, versions_since += 1 when a snapshot exists
pub open spec fn add_version_spec(c: CState, v: Uuid, p: Uuid, seg: Seq<u8>) -> CState {
    CState {
        latest: v,
        snapshot: bump(c.snapshot),
        versions: c.versions.insert(v, GVersion { version_id: v, parent_version_id: p, history_segment: seg }),
        children: c.children.insert(p, v),
        ..c
    }
}

pub open spec fn set_snapshot_spec(c: CState, s: Snapshot, data: Seq<u8>) -> CState {
    CState { snapshot: Some(s), snapshot_data: Some(data), ..c }
}

/// the snapshot record an accepted AddSnapshot stores: counter reset to 0 (C12)
pub open spec fn new_snap(v: Uuid, t: DateTime<Utc>) -> Snapshot {
    Snapshot { version_id: v, timestamp: t, versions_since: 0 }
}

// ------------------------------------------------------------------ fault model / frames (C05, C09, C18)

/// a call that does not write: everything but the fault counter is unchanged
pub open spec fn read_only(o: TxnView, f: TxnView, err: bool) -> bool {
    f == TxnView { faults: if err { o.faults + 1 } else { o.faults }, ..o }
}

/// a write of this client's state to `n`: whole-database equation, so other clients are framed (C09)
pub open spec fn wrote(o: TxnView, f: TxnView, n: CState) -> bool {
    f == TxnView { cur: o.cur.insert(o.client_id, n), dirty: true, ..o }
}

/// a failed write: counted as a fault; it may or may not have taken effect inside the
/// (still un-committed) transaction; `durable` is untouched
pub open spec fn write_failed(o: TxnView, f: TxnView, n: CState) -> bool {
    ||| f == TxnView { faults: o.faults + 1, ..o }
    ||| f == TxnView { faults: o.faults + 1, cur: o.cur.insert(o.client_id, n), ..o }
}

pub open spec fn committed(o: TxnView, f: TxnView) -> bool {
    f == TxnView { durable: o.cur, commit_attempted: true, ..o }
}

/// commit returned Err: acknowledgement lost or nothing happened
pub open spec fn commit_failed(o: TxnView, f: TxnView) -> bool {
    ||| f == TxnView { faults: o.faults + 1, commit_attempted: true, ..o }
    ||| f == TxnView { faults: o.faults + 1, commit_attempted: true, durable: o.cur, ..o }
}

// ------------------------------------------------------------------ the chain (a predicate on the maps)

/// `back(c, 0)` is the latest version id; `back(c, k+1)` the parent of `back(c, k)`.
pub open spec fn back(c: CState, k: nat) -> Uuid
    decreases k,
{
    if k == 0 {
        c.latest
    } else {
        let u = back(c, (k - 1) as nat);
        if c.versions.dom().contains(u) { c.versions[u].parent_version_id } else { nil_id() }
    }
}

pub open spec fn stored(c: CState, u: Uuid) -> bool { c.versions.dom().contains(u) }

/// `c` is a chain of exactly `n` stored versions back(c,0..n) hanging off the base back(c,n)
pub open spec fn chain_n(c: CState, n: nat) -> bool {
    &&& forall|k: nat| k < n ==> #[trigger] stored(c, back(c, k)) && back(c, k) != nil_id()
            && c.versions[back(c, k)].version_id == back(c, k)
    &&& !stored(c, back(c, n))
    &&& forall|i: nat, j: nat| i < j && j < n ==> back(c, i) != back(c, j)
    // no orphans
    &&& forall|u: Uuid| #[trigger] stored(c, u) ==> exists|k: nat| k < n && back(c, k) == u
    // the child index is exactly the inverse of the parent links: no two versions share a parent
    &&& forall|u: Uuid| #[trigger] stored(c, u) ==>
            c.children.dom().contains(c.versions[u].parent_version_id)
            && c.children[c.versions[u].parent_version_id] == u
    &&& forall|p: Uuid| #[trigger] c.children.dom().contains(p) ==>
            stored(c, c.children[p]) && c.versions[c.children[p]].parent_version_id == p
    &&& (n == 0 <==> c.latest == nil_id())
    // the stored snapshot is for a version on the chain or for its base, and has its data
    &&& (c.snapshot is Some ==> c.snapshot->Some_0.version_id != nil_id()
            && exists|k: nat| k <= n && back(c, k) == c.snapshot->Some_0.version_id)
    &&& (c.snapshot is Some <==> c.snapshot_data is Some)
}

pub open spec fn chain_wf(c: CState) -> bool {
    if c.exists { exists|n: nat| chain_n(c, n) } else { c == absent() }
}

/// A8 (assumption on histories): fewer than u32::MAX versions are accepted between two snapshots
pub open spec fn counter_bound(c: CState) -> bool {
    c.snapshot is Some ==> c.snapshot->Some_0.versions_since < u32::MAX
}

// ------------------------------------------------------------------ protocol-level specs, written from the property statements

/// C02: "accepted exactly when the client has no versions yet or p is the client's current latest version"
pub open spec fn accept(c: CState, p: Uuid) -> bool {
    c.latest == nil_id() || p == c.latest
}

/// A1 (rule E10): the id drawn by Uuid::new_v4() is non-nil and differs from every id in the
/// client's state and from the request's parent id
pub open spec fn fresh_id(v: Uuid, t: TxnView, p: Uuid) -> bool {
    let c = cs(t.cur, t.client_id);
    &&& v != nil_id()
    &&& v != p
    &&& !c.versions.dom().contains(v)
    &&& !c.children.dom().contains(v)
    &&& (c.snapshot is Some ==> c.snapshot->Some_0.version_id != v)
}

} // verus!
