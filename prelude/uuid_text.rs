// uuid text form (A11): `to_string` / `parse_str` of the uuid crate are uninterpreted; the one law assumed of them is the
// round trip parse(text(u)) == u (sampled against the real crate by the stand-in leg)
verus! {

// ---------------------------------------------------------------- uuid text (A11)
pub uninterp spec fn uuid_text(u: Uuid) -> Seq<char>;
pub uninterp spec fn uuid_parse(s: Seq<char>) -> Option<Uuid>;
pub struct UuidParseError;
impl Uuid {
    #[verifier::external_body]
    pub fn to_string(&self) -> (r: String)
        ensures r@ == uuid_text(*self),
    { unimplemented!() }
    #[verifier::external_body]
    pub fn parse_str(s: &str) -> (r: core::result::Result<Uuid, UuidParseError>)
        ensures
            r is Ok <==> uuid_parse(s@) is Some,
            r is Ok ==> Some(r->Ok_0) == uuid_parse(s@),
    { unimplemented!() }
}


/// A11: the uuid crate parses what it prints
#[verifier::external_body]
pub proof fn axiom_uuid_text_roundtrip(u: Uuid)
    ensures uuid_parse(uuid_text(u)) == Some(u),
{}

} // verus!
