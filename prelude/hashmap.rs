// ===== prelude/hashmap.rs — std contracts beyond vstd (A2).  Assumed, not proved. =====
verus! {

/// HashMap::get_mut: a mutable reference to the value stored under the key; every other entry is untouched
pub assume_specification<'a, K, V, S, A, Q>[ std::collections::HashMap::<K, V, S, A>::get_mut ](m: &'a mut std::collections::HashMap<K, V, S, A>, k: &Q) -> (r: Option<&'a mut V>)
    where
        A: std::alloc::Allocator,
        K: std::cmp::Eq + std::hash::Hash + std::borrow::Borrow<Q>,
        Q: std::marker::MetaSized + std::hash::Hash + std::cmp::Eq + ?Sized,
        S: std::hash::BuildHasher,
    ensures
        vstd::std_specs::hash::obeys_key_model::<K>() && vstd::std_specs::hash::builds_valid_hashers::<S>() ==> (match r {
            Some(v) => vstd::std_specs::hash::contains_borrowed_key(old(m)@, k)
                && vstd::std_specs::hash::maps_borrowed_key_to_value(old(m)@, k, *v)
                && vstd::std_specs::hash::maps_borrowed_key_to_value(final(m)@, k, *final(v))
                && final(m)@.dom() == old(m)@.dom()
                && (forall|k2: K| #[trigger] old(m)@.dom().contains(k2) && !vstd::std_specs::hash::set_contains_borrowed_key(Set::<K>::empty().insert(k2), k) ==> final(m)@[k2] == old(m)@[k2]),
            None => !vstd::std_specs::hash::contains_borrowed_key(old(m)@, k) && final(m)@ == old(m)@,
        });

/// Option::replace: stores the new value, returns the old one
pub assume_specification<T>[ Option::<T>::replace ](o: &mut Option<T>, value: T) -> (r: Option<T>)
    ensures *final(o) == Some(value), r == *old(o);

/// Option::filter: keeps the value exactly when the predicate accepts it
pub assume_specification<T, P: FnOnce(&T) -> bool>[ Option::<T>::filter ](o: Option<T>, predicate: P) -> (r: Option<T>)
    requires
        o is Some ==> predicate.requires((&o->Some_0,)),
    ensures
        o is None ==> r is None,
        o is Some ==> (r == o || r is None) && (r is Some <==> predicate.ensures((&o->Some_0,), true));

/// bool::then_some
pub assume_specification<T>[ bool::then_some ](b: bool, t: T) -> (r: Option<T>)
    ensures r == (if b { Some(t) } else { None::<T> });

/// Result::unwrap_or: the Ok value, else the default
pub assume_specification<T, E>[ core::result::Result::<T, E>::unwrap_or ](r: core::result::Result<T, E>, default: T) -> (o: T)
    ensures o == (match r { Ok(t) => t, Err(_) => default });

/// Option::copied / Option::or (not specified by this vstd)
pub assume_specification<T: Copy>[ Option::<&T>::copied ](o: Option<&T>) -> (r: Option<T>)
    ensures r == (match o { Some(t) => Some(*t), None => None::<T> });
pub assume_specification<T>[ Option::<T>::or ](o: Option<T>, b: Option<T>) -> (r: Option<T>)
    ensures r == (if o is Some { o } else { b });

} // verus!
