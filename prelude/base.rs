// ===== prelude/base.rs — stand-ins for DEPENDENCIES only (uuid, chrono, anyhow, conversions). =====
// Nothing in this file is repository code.  Every external_body / assume_specification here is part
// of the trusted base (DESIGN.md 4.9, A2/A6/A7/A10/A11) and is listed by the trust scan.

#[allow(unused_macros)]
macro_rules! verif_try {
    // E3: Rust's definition of `?` on Result, with the conversion made explicit
    ($e:expr) => {
        match $e {
            Ok(v) => v,
            Err(x) => return Err(verif_from(x)),
        }
    };
}
#[allow(unused_macros)]
macro_rules! verif_anyhow {
    // E5: anyhow::anyhow!(..) with the message dropped
    () => {
        anyhow::Error::msg()
    };
}
#[allow(unused_macros)]
macro_rules! verif_bail {
    // E5: anyhow::bail!(..) with the message dropped
    () => {
        return Err(anyhow::Error::msg())
    };
}

verus! {

// ---------------------------------------------------------------- uuid (A11)
pub mod uuid {
    use vstd::prelude::*;
    /// A 128-bit value with structural equality; `nil` is 0.
    #[derive(Clone, Copy, Eq, Hash)]
    pub struct Uuid { pub v: u128 }
    impl vstd::std_specs::cmp::PartialEqSpecImpl for Uuid {
        open spec fn obeys_eq_spec() -> bool { true }
        open spec fn eq_spec(&self, other: &Uuid) -> bool { *self == *other }
    }
    impl PartialEq for Uuid {
        fn eq(&self, other: &Uuid) -> (r: bool) { self.v == other.v }
    }

    /// A1: nothing is known about the value returned by `new_v4` except that it is the value of
    /// the version-4 generator (`is_v4`).  Freshness is assumed at the call site (rule E10).
    pub uninterp spec fn is_v4(u: Uuid) -> bool;

    impl Uuid {
        pub const fn nil() -> (r: Uuid)
            ensures r == (Uuid { v: 0 }),
        {
            Uuid { v: 0 }
        }
        pub fn is_nil(&self) -> (r: bool)
            ensures r == (self.v == 0),
        {
            self.v == 0
        }
        #[verifier::external_body]
        pub fn new_v4() -> (r: Uuid)
            ensures is_v4(r),
        {
            unimplemented!()
        }
    }
}
pub use uuid::Uuid;

pub open spec fn nil_id() -> Uuid { Uuid { v: 0 } }

/// A2: Uuid's derived Hash/Eq obey the key model of the std hash collections
#[verifier::external_body]
pub proof fn axiom_uuid_key_model()
    ensures
        vstd::std_specs::hash::obeys_key_model::<Uuid>(),
        vstd::std_specs::hash::obeys_key_model::<(Uuid, Uuid)>(),
{}

// ---------------------------------------------------------------- chrono (A10)
pub mod chrono {
    use vstd::prelude::*;
    #[derive(Clone, Copy, PartialEq, Eq)]
    pub struct Utc;
    #[derive(Clone, Copy, PartialEq, Eq)]
    pub struct DateTime<Tz> { pub secs: i64, pub tz: core::marker::PhantomData<Tz> }
    #[derive(Clone, Copy)]
    pub struct TimeDelta { pub days: i64 }

    /// the wall clock: an arbitrary value (A10)
    pub uninterp spec fn clock_days(a: DateTime<Utc>, b: DateTime<Utc>) -> i64;

    impl Utc {
        #[verifier::external_body]
        pub fn now() -> (r: DateTime<Utc>) { unimplemented!() }
    }
    impl TimeDelta {
        pub fn num_days(&self) -> (r: i64) ensures r == self.days { self.days }
    }
    #[verifier::external_body]
    pub fn datetime_sub(a: DateTime<Utc>, b: DateTime<Utc>) -> (r: TimeDelta)
        ensures r.days == clock_days(a, b),
    { unimplemented!() }
}
pub use chrono::{Utc, DateTime};

impl vstd::std_specs::ops::SubSpecImpl<DateTime<Utc>> for DateTime<Utc> {
    open spec fn obeys_sub_spec() -> bool { false }
    open spec fn sub_req(self, rhs: DateTime<Utc>) -> bool { true }
    open spec fn sub_spec(self, rhs: DateTime<Utc>) -> chrono::TimeDelta { arbitrary() }
}
impl core::ops::Sub<DateTime<Utc>> for DateTime<Utc> {
    type Output = chrono::TimeDelta;
    fn sub(self, rhs: DateTime<Utc>) -> (r: chrono::TimeDelta)
        ensures r.days == chrono::clock_days(self, rhs),
    {
        chrono::datetime_sub(self, rhs)
    }
}

// ---------------------------------------------------------------- anyhow (A6)
pub mod anyhow {
    use vstd::prelude::*;
    /// an error without content: error *text* is not modelled, error *occurrence* is
    pub struct Error { pub tag: u8 }
    pub type Result<T> = core::result::Result<T, Error>;
    impl Error {
        pub fn msg() -> (r: Error) { Error { tag: 0 } }
    }
}

/// A6: the conversion `?` performs (`From::from`).
pub trait VerifFrom<T>: Sized {
    spec fn from_spec(t: T) -> Self;
    fn vfrom(t: T) -> (r: Self)
        ensures r == Self::from_spec(t);
}
impl<T> VerifFrom<T> for T {
    open spec fn from_spec(t: T) -> T { t }
    fn vfrom(t: T) -> (r: T) { t }
}
pub fn verif_from<A, B: VerifFrom<A>>(a: A) -> (r: B)
    ensures r == B::from_spec(a),
{
    B::vfrom(a)
}

} // verus!
