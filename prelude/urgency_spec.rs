// ===== prelude/urgency_spec.rs — the urgency thresholds of C12, written from the property statement =====
// Pure specification over the repository's own `SnapshotUrgency` enum.

verus! {

pub open spec fn urank(u: SnapshotUrgency) -> int {
    match u { SnapshotUrgency::None => 0, SnapshotUrgency::Low => 1, SnapshotUrgency::High => 2 }
}

/// C12: high when the measure has reached one and a half times the target (integer arithmetic:
/// floor(3t/2)), low when it has reached the target, none otherwise.
pub open spec fn urgency_spec(target: int, measure: int) -> SnapshotUrgency {
    if measure >= (target * 3) / 2 { SnapshotUrgency::High }
    else if measure >= target { SnapshotUrgency::Low }
    else { SnapshotUrgency::None }
}

pub open spec fn umax(a: SnapshotUrgency, b: SnapshotUrgency) -> SnapshotUrgency {
    if urank(a) >= urank(b) { a } else { b }
}

} // verus!
