// ===== prelude/actix.rs — stand-ins for actix-web / futures / bytes (A9).  No repository code. =====
// Each contract below is written from the behaviour of actix-web 4.10 / bytes 1.x and is an
// ASSUMPTION (trusted base A9); the value-level ones are exercised against the real crates by
// conform/tests/standins.rs.  Routing, extraction and middleware application are not modelled.

verus! {

// A12: the handlers are verified for the 64-bit target the server is built for
global size_of usize == 8;

/// header list / body / status of a response: the HTTP-visible outcome (C14)
pub struct RespView {
    pub status: int,
    pub content_type: Option<Seq<char>>,
    pub headers: Seq<(Seq<char>, Seq<char>)>,   // appended headers, in order
    pub body: Seq<u8>,
}

pub struct HttpResponse { pub v: Ghost<RespView> }
pub struct HttpResponseBuilder { pub v: Ghost<RespView> }

impl View for HttpResponse { type V = RespView; open spec fn view(&self) -> RespView { self.v@ } }
impl View for HttpResponseBuilder { type V = RespView; open spec fn view(&self) -> RespView { self.v@ } }

pub open spec fn empty_resp(status: int) -> RespView {
    RespView { status, content_type: None, headers: Seq::empty(), body: Seq::empty() }
}

/// `(name, value)` pairs accepted by append_header
pub trait HeaderPair {
    spec fn hname(&self) -> Seq<char>;
    spec fn hvalue(&self) -> Seq<char>;
}
impl HeaderPair for (&str, String) {
    open spec fn hname(&self) -> Seq<char> { self.0@ }
    open spec fn hvalue(&self) -> Seq<char> { self.1@ }
}
impl HeaderPair for (&str, &str) {
    open spec fn hname(&self) -> Seq<char> { self.0@ }
    open spec fn hvalue(&self) -> Seq<char> { self.1@ }
}

/// response bodies
pub trait BodyLike {
    spec fn bytes(&self) -> Seq<u8>;
}
impl BodyLike for Vec<u8> {
    open spec fn bytes(&self) -> Seq<u8> { self@ }
}
pub uninterp spec fn str_bytes(s: Seq<char>) -> Seq<u8>;
impl BodyLike for &str {
    open spec fn bytes(&self) -> Seq<u8> { str_bytes(self@) }
}

impl HttpResponse {
    #[verifier::external_body]
    #[allow(non_snake_case)]
    pub fn Ok() -> (r: HttpResponseBuilder)
        ensures r@ == empty_resp(200),
    { unimplemented!() }
    #[verifier::external_body]
    #[allow(non_snake_case)]
    pub fn Conflict() -> (r: HttpResponseBuilder)
        ensures r@ == empty_resp(409),
    { unimplemented!() }
}

impl HttpResponseBuilder {
    #[verifier::external_body]
    pub fn content_type(&mut self, ct: &str) -> (r: &mut Self)
        ensures
            final(self)@ == (RespView { content_type: Some(ct@), ..old(self)@ }),
            *r == *final(self), *final(r) == *final(self),
    { unimplemented!() }
    #[verifier::external_body]
    pub fn append_header<H: HeaderPair>(&mut self, h: H) -> (r: &mut Self)
        ensures
            final(self)@ == (RespView { headers: old(self)@.headers.push((h.hname(), h.hvalue())), ..old(self)@ }),
            *r == *final(self), *final(r) == *final(self),
    { unimplemented!() }
    #[verifier::external_body]
    pub fn body<B: BodyLike>(&mut self, b: B) -> (r: HttpResponse)
        ensures
            r@ == (RespView { body: b.bytes(), ..old(self)@ }),
    { unimplemented!() }
    #[verifier::external_body]
    pub fn finish(&mut self) -> (r: HttpResponse)
        ensures
            r@ == old(self)@,
    { unimplemented!() }
}

/// actix_web::Error: only its response status is modelled
pub struct Error { pub status: Ghost<int> }
pub type HResult = core::result::Result<HttpResponse, Error>;

pub mod error {
    use super::*;
    pub use super::Error;
    #[verifier::external_body] #[allow(non_snake_case)]
    pub fn ErrorBadRequest<T>(t: T) -> (r: Error) ensures r.status@ == 400 { unimplemented!() }
    #[verifier::external_body] #[allow(non_snake_case)]
    pub fn ErrorNotFound<T>(t: T) -> (r: Error) ensures r.status@ == 404 { unimplemented!() }
    #[verifier::external_body] #[allow(non_snake_case)]
    pub fn ErrorGone<T>(t: T) -> (r: Error) ensures r.status@ == 410 { unimplemented!() }
    #[verifier::external_body] #[allow(non_snake_case)]
    pub fn ErrorForbidden<T>(t: T) -> (r: Error) ensures r.status@ == 403 { unimplemented!() }
    #[verifier::external_body] #[allow(non_snake_case)]
    pub fn ErrorInternalServerError<T>(t: T) -> (r: Error) ensures r.status@ == 500 { unimplemented!() }
}

pub mod actix_web {
    pub type Result<T> = core::result::Result<T, super::Error>;
    pub use super::Error;
    pub use super::error;
    pub use super::web;
    pub use super::middleware;
}

// ---------------------------------------------------------------- requests

pub struct HeaderValue { pub raw: Ghost<Seq<u8>> }
pub struct ToStrError;
impl HeaderValue {
    /// Ok exactly for visible-ASCII values; then the text is the bytes
    #[verifier::external_body]
    pub fn to_str(&self) -> (r: core::result::Result<&str, ToStrError>)
        ensures
            r is Ok <==> text_ok(self.raw@),
            r is Ok ==> r->Ok_0@ == bytes_as_text(self.raw@),
    { unimplemented!() }
}
pub uninterp spec fn bytes_as_text(b: Seq<u8>) -> Seq<char>;
/// the header value consists of visible ASCII only (HeaderValue::to_str succeeds)
pub uninterp spec fn text_ok(b: Seq<u8>) -> bool;

pub struct HeaderMap { pub m: Ghost<Map<Seq<char>, Seq<u8>>> }
impl HeaderMap {
    #[verifier::external_body]
    pub fn get(&self, name: &str) -> (r: Option<&HeaderValue>)
        ensures
            r is Some <==> self.m@.dom().contains(name@),
            r is Some ==> r->Some_0.raw@ == self.m@[name@],
    { unimplemented!() }
}

pub struct HttpRequest { pub hdrs: HeaderMap, pub ctype: Ghost<Seq<char>> }
impl HttpRequest {
    pub fn headers(&self) -> (r: &HeaderMap)
        ensures *r == self.hdrs,
    { &self.hdrs }
    /// HttpMessage::content_type: the essence of the Content-Type header, "" when absent
    #[verifier::external_body]
    pub fn content_type(&self) -> (r: &str)
        ensures r@ == self.ctype@,
    { unimplemented!() }
}

/// &str comparison as used by the handlers (`!=` on string slices)
pub assume_specification[ <str as PartialEq<str>>::eq ](a: &str, b: &str) -> (r: bool)
    ensures r == (a@ == b@);

pub mod web {
    use super::*;
    pub struct Path<T> { pub inner: T }
    impl<T> Path<T> {
        pub fn into_inner(self) -> (r: T) ensures r == self.inner { self.inner }
    }
    /// the request body as a stream of chunks, each Ok(bytes) or a transport error;
    /// the content is an arbitrary, predetermined sequence (the adversary's choice)
    pub struct Payload { pub rem: Ghost<Seq<Option<Seq<u8>>>> }   // None = stream error
    pub struct Bytes { pub b: Vec<u8> }
    pub struct PayloadError;
    impl Payload {
        #[verifier::external_body]
        pub async fn next(&mut self) -> (r: Option<core::result::Result<Bytes, PayloadError>>)
            ensures
                old(self).rem@.len() == 0 ==> r is None && final(self).rem@ == old(self).rem@,
                old(self).rem@.len() > 0 ==> r is Some && final(self).rem@ == old(self).rem@.skip(1)
                    && (match old(self).rem@[0] {
                        Some(b) => r->Some_0 is Ok && r->Some_0->Ok_0.b@ == b && b.len() <= 0x7fff_ffff_ffff_ffff,
                        None => r->Some_0 is Err,
                    }),
        { unimplemented!() }
    }
    impl Bytes {
        pub fn len(&self) -> (r: usize) ensures r == self.b@.len() { self.b.len() }
    }
    impl Bytes {
        pub fn is_empty(&self) -> (r: bool) ensures r == (self.b@.len() == 0) { self.b.len() == 0 }
    }
    pub struct BytesMut { pub b: Vec<u8> }
    impl BytesMut {
        pub fn new() -> (r: BytesMut) ensures r.b@.len() == 0 { BytesMut { b: Vec::new() } }
        pub fn len(&self) -> (r: usize) ensures r == self.b@.len() { self.b.len() }
        pub fn is_empty(&self) -> (r: bool) ensures r == (self.b@.len() == 0) { self.b.len() == 0 }
        #[verifier::external_body]
        pub fn extend_from_slice(&mut self, other: &Bytes)
            ensures final(self).b@ == old(self).b@ + other.b@,
        { unimplemented!() }
        #[verifier::external_body]
        pub fn to_vec(&self) -> (r: Vec<u8>)
            ensures r@ == self.b@,
        { unimplemented!() }
        /// bytes::BytesMut::split: returns everything read so far and leaves `self` empty
        #[verifier::external_body]
        pub fn split(&mut self) -> (r: BytesMut)
            ensures r.b@ == old(self).b@, final(self).b@.len() == 0,
        { unimplemented!() }
        #[verifier::external_body]
        pub fn freeze(self) -> (r: Bytes)
            ensures r.b@ == self.b@,
        { unimplemented!() }
    }
    impl Bytes {
        #[verifier::external_body]
        pub fn to_vec(&self) -> (r: Vec<u8>)
            ensures r@ == self.b@,
        { unimplemented!() }
    }

    // ---- application wiring (C20): scopes, middleware, services; only their structure is modelled
    pub struct ScopeView {
        pub middlewares: Seq<Seq<(Seq<char>, Seq<char>)>>,   // each DefaultHeaders middleware: the headers it adds
        pub other_middlewares: nat,                          // anything else wrapped around the scope
        pub services: nat,
    }
    pub struct Scope { pub v: Ghost<ScopeView> }
    pub struct ServiceConfig { pub scopes: Ghost<Seq<ScopeView>> }
    pub struct Data<T> { pub inner: T }
    impl<T> Data<T> {
        pub fn new(t: T) -> (r: Data<T>) ensures r.inner == t { Data { inner: t } }
    }
    #[verifier::external_body]
    pub fn scope(path: &str) -> (r: Scope)
        ensures r.v@ == (ScopeView { middlewares: Seq::empty(), other_middlewares: 0, services: 0 }),
    { unimplemented!() }
    pub trait Wrappable {
        /// Some(headers) for a DefaultHeaders middleware, None for any other middleware
        spec fn default_headers(&self) -> Option<Seq<(Seq<char>, Seq<char>)>>;
    }
    impl Scope {
        #[verifier::external_body]
        pub fn app_data<T>(self, t: T) -> (r: Scope)
            ensures r.v@ == self.v@,
        { unimplemented!() }
        #[verifier::external_body]
        pub fn wrap<M: Wrappable>(self, m: M) -> (r: Scope)
            ensures r.v@ == (match m.default_headers() {
                Some(h) => ScopeView { middlewares: self.v@.middlewares.push(h), ..self.v@ },
                None => ScopeView { other_middlewares: self.v@.other_middlewares + 1, ..self.v@ },
            }),
        { unimplemented!() }
        #[verifier::external_body]
        pub fn service<F>(self, f: F) -> (r: Scope)
            ensures r.v@ == (ScopeView { services: self.v@.services + 1, ..self.v@ }),
        { unimplemented!() }
    }
    impl ServiceConfig {
        #[verifier::external_body]
        pub fn service(&mut self, s: Scope) -> (r: &mut Self)
            ensures final(self).scopes@ == old(self).scopes@.push(s.v@), *r == *final(self), *final(r) == *final(self),
        { unimplemented!() }
    }
}
pub mod middleware {
    use super::*;
    pub struct DefaultHeaders { pub h: Ghost<Seq<(Seq<char>, Seq<char>)>> }
    impl DefaultHeaders {
        #[verifier::external_body]
        pub fn new() -> (r: DefaultHeaders)
            ensures r.h@.len() == 0,
        { unimplemented!() }
        #[verifier::external_body]
        pub fn add<H: HeaderPair>(self, h: H) -> (r: DefaultHeaders)
            ensures r.h@ == self.h@.push((h.hname(), h.hvalue())),
        { unimplemented!() }
    }
    impl web::Wrappable for DefaultHeaders {
        open spec fn default_headers(&self) -> Option<Seq<(Seq<char>, Seq<char>)>> { Some(self.h@) }
    }
}
/// the `index` service generated by #[get("/")] (not modelled beyond being a service)
#[allow(non_camel_case_types)]
pub struct index;

/// `?` on a chunk: PayloadError -> actix Error; PayloadError's ResponseError status is 4xx (400 or 413)
impl VerifFrom<web::PayloadError> for Error {
    uninterp spec fn from_spec(t: web::PayloadError) -> Error;
    #[verifier::external_body]
    fn vfrom(t: web::PayloadError) -> (r: Error) { unimplemented!() }
}
#[verifier::external_body]
pub proof fn axiom_payload_error_is_4xx(t: web::PayloadError)
    ensures 400 <= <Error as VerifFrom<web::PayloadError>>::from_spec(t).status@ < 500,
{}

} // verus!
