// ===== prelude/history.rs — histories of protocol operations over the abstract database =====
// Pure specification.  The per-event transition uses exactly the spec functions that the
// postconditions of the real functions use (accept, add_version_spec, set_snapshot_spec,
// snap_should_accept, snap_corner, new_client_spec): U1's clauses av.step / snap.step /
// *.readonly state that one call of the real function IS one such transition.

verus! {

pub enum Event {
    /// the AddVersion handler's create-if-absent transaction
    Create { client: Uuid },
    /// AddVersion with parent p; `v` is the id drawn for it (used only if accepted)
    AddVersion { client: Uuid, p: Uuid, seg: Seq<u8>, v: Uuid },
    /// AddSnapshot; `take_corner`: what the implementation does in the unspecified corner
    AddSnapshot { client: Uuid, v: Uuid, data: Seq<u8>, t: DateTime<Utc>, take_corner: bool },
    /// GetChildVersion / GetSnapshot / any refused request
    Read { client: Uuid },
}

pub open spec fn client_of_event(e: Event) -> Uuid {
    match e {
        Event::Create { client } => client,
        Event::AddVersion { client, .. } => client,
        Event::AddSnapshot { client, .. } => client,
        Event::Read { client } => client,
    }
}

pub open spec fn snap_applies(c: CState, v: Uuid, take_corner: bool) -> bool {
    c.exists && (snap_should_accept(c, v) || (take_corner && snap_corner(c, v)))
}

/// one operation, as a function of the pre-state (postconditions av.* / snap.* / *.readonly of U1, create.* of U3)
pub open spec fn step(db: Db, e: Event) -> Db {
    match e {
        Event::Create { client } =>
            if cs(db, client).exists { db } else { db.insert(client, new_client_spec(nil_id())) },
        Event::AddVersion { client, p, seg, v } => {
            let c = cs(db, client);
            if c.exists && accept(c, p) { db.insert(client, add_version_spec(c, v, p, seg)) } else { db }
        },
        Event::AddSnapshot { client, v, data, t, take_corner } => {
            let c = cs(db, client);
            if snap_applies(c, v, take_corner) { db.insert(client, set_snapshot_spec(c, new_snap(v, t), data)) } else { db }
        },
        Event::Read { client } => db,
    }
}

pub open spec fn run(h: Seq<Event>) -> Db
    decreases h.len(),
{
    if h.len() == 0 { IMap::empty() } else { step(run(h.drop_last()), h.last()) }
}

/// A1 + A8 for a whole history: every id drawn for an accepted AddVersion is fresh at that moment,
/// and the counter stays below u32::MAX
pub open spec fn fresh_history(h: Seq<Event>) -> bool
    decreases h.len(),
{
    if h.len() == 0 { true } else {
        let db = run(h.drop_last());
        &&& fresh_history(h.drop_last())
        &&& (match h.last() {
            Event::AddVersion { client, p, seg, v } => {
                let c = cs(db, client);
                c.exists && accept(c, p) ==>
                    v != nil_id() && v != p && !c.versions.dom().contains(v) && !c.children.dom().contains(v) && counter_bound(c)
            },
            _ => true,
        })
    }
}

/// C01/C08: what GetChildVersion answers in a state (gcv.found / gcv.split of U1)
pub enum GcvAnswer { NoSuchClient, NotFound, Gone, Found(GVersion) }

pub open spec fn gcv_spec(c: CState, p: Uuid) -> GcvAnswer {
    if !c.exists { GcvAnswer::NoSuchClient }
    else if c.children.dom().contains(p) && c.versions.dom().contains(c.children[p]) { GcvAnswer::Found(c.versions[c.children[p]]) }
    else if accept(c, p) { GcvAnswer::NotFound }
    else { GcvAnswer::Gone }
}


} // verus!
