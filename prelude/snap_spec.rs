// ===== prelude/snap_spec.rs — the AddSnapshot acceptance rule (C10), written from the property statement, and lemmas about the bounded walk =====
// Pure specification, no repository code.

verus! {

/// the stored snapshot is for version u
pub open spec fn snap_at(c: CState, u: Uuid) -> bool {
    c.snapshot is Some && c.snapshot->Some_0.version_id == u
}

/// positions 0..k-1 (0 = latest) are stored versions, none of them is v, none holds the snapshot
pub open spec fn walked(c: CState, v: Uuid, k: nat) -> bool {
    forall|j: nat| j < k ==> #[trigger] stored(c, back(c, j)) && (back(c, j) != v || v == nil_id()) && !snap_at(c, back(c, j))
}

/// positions 0..k of the chain are stored versions
pub open spec fn on_chain_upto(c: CState, k: nat) -> bool {
    forall|j: nat| j <= k ==> #[trigger] stored(c, back(c, j))
}

/// C10, from the statement: v is at position k (0 = latest) among the five most recent versions,
/// and no newer version within that window already holds the snapshot
pub open spec fn snap_acc_at(c: CState, v: Uuid, k: nat) -> bool {
    &&& k < 5
    &&& on_chain_upto(c, k)
    &&& back(c, k) == v
    &&& forall|j: nat| j < k ==> !(c.snapshot is Some && c.snapshot->Some_0.version_id == #[trigger] back(c, j))
}

pub open spec fn snap_should_accept(c: CState, v: Uuid) -> bool {
    &&& v != nil_id()
    &&& !(c.snapshot is Some && c.snapshot->Some_0.version_id == v)
    &&& exists|k: nat| snap_acc_at(c, v, k)
}

/// the one corner C10 leaves unspecified: v is the non-nil id the chain started from
pub open spec fn snap_corner(c: CState, v: Uuid) -> bool {
    &&& v != nil_id()
    &&& !snap_at(c, v)
    &&& exists|k: nat| k < 5 && #[trigger] back(c, k) == v && !stored(c, v)
            && (forall|j: nat| j < k ==> #[trigger] stored(c, back(c, j)) && !snap_at(c, back(c, j)))
}

/// one more step of the walk
pub proof fn lemma_walk_step(c: CState, v: Uuid, k: nat)
    requires
        k >= 1,
        walked(c, v, (k - 1) as nat),
        stored(c, back(c, (k - 1) as nat)),
        back(c, (k - 1) as nat) != v || v == nil_id(),
        !snap_at(c, back(c, (k - 1) as nat)),
    ensures
        walked(c, v, k),
        back(c, k) == c.versions[back(c, (k - 1) as nat)].parent_version_id,
{
    assert forall|j: nat| j < k implies #[trigger] stored(c, back(c, j)) && (back(c, j) != v || v == nil_id()) && !snap_at(c, back(c, j)) by {
        if j < k - 1 {
            assert(stored(c, back(c, j)));
        } else {
            assert(j == (k - 1) as nat);
        }
    }
}

/// the bounded walk stopped at position k without finding v: v is not acceptable (C10)
pub proof fn lemma_snap_decline(c: CState, v: Uuid, k: nat)
    requires
        k < 5,
        walked(c, v, k),
        back(c, k) != v || v == nil_id(),
        snap_at(c, back(c, k)) || k == 4 || !stored(c, back(c, k)),
    ensures
        !snap_should_accept(c, v),
{
    if snap_should_accept(c, v) {
        let k2 = choose|k2: nat| snap_acc_at(c, v, k2);
        if k2 < k {
            assert(stored(c, back(c, k2)));
        } else if k2 > k {
            assert(stored(c, back(c, k)));
        }
    }
}

/// the bounded walk found v at position k: v is acceptable, or it is the unspecified corner (C10)
pub proof fn lemma_snap_found(c: CState, v: Uuid, k: nat)
    requires
        k < 5, v != nil_id(), back(c, k) == v,
        !snap_at(c, v),
        walked(c, v, k),
    ensures
        snap_should_accept(c, v) || snap_corner(c, v),
        exists|k: nat| k < 5 && #[trigger] back(c, k) == v && (forall|j: nat| j < k ==> #[trigger] stored(c, back(c, j))),
{
    assert forall|j: nat| j < k implies #[trigger] stored(c, back(c, j)) by {}
    if stored(c, v) {
        assert(snap_acc_at(c, v, k)) by {
            assert forall|j: nat| j <= k implies #[trigger] stored(c, back(c, j)) by {
                if j < k { assert(stored(c, back(c, j))); }
            }
            assert forall|j: nat| j < k implies !(c.snapshot is Some && c.snapshot->Some_0.version_id == #[trigger] back(c, j)) by {
                assert(stored(c, back(c, j)));
            }
        }
    } else {
        assert(snap_corner(c, v));
    }
}

} // verus!
