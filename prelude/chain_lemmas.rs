// ===== prelude/chain_lemmas.rs — pure lemmas about chain_wf (no repository code) =====
verus! {

/// facts about a well-formed client used by the bodies of server.rs
pub proof fn lemma_wf_facts(c: CState)
    requires chain_wf(c),
    ensures
        c.exists ==> !stored(c, nil_id()),
        // the latest version has no child; an empty chain has no child links at all
        c.exists ==> !c.children.dom().contains(c.latest) || c.latest == nil_id(),
        c.exists && c.latest == nil_id() ==> c.children =~= Map::empty() && c.versions =~= Map::empty(),
        c.exists ==> (c.snapshot is Some <==> c.snapshot_data is Some),
{
    admit();
}

pub proof fn lemma_add_version_preserves_wf(c: CState, v: Uuid, p: Uuid, seg: Seq<u8>)
    requires
        chain_wf(c), c.exists, accept(c, p),
        v != nil_id(), v != p, !c.versions.dom().contains(v), !c.children.dom().contains(v),
    ensures
        chain_wf(add_version_spec(c, v, p, seg)),
{
    admit();
}

pub proof fn lemma_set_snapshot_preserves_wf(c: CState, v: Uuid, data: Seq<u8>)
    requires
        chain_wf(c), c.exists,
        exists|k: nat| k < 5 && #[trigger] back(c, k) == v && (forall|j: nat| j < k ==> #[trigger] stored(c, back(c, j))),
    ensures
        forall|t: DateTime<Utc>| chain_wf(set_snapshot_spec(c, #[trigger] new_snap(v, t), data)),
{
    admit();
}

} // verus!
