// ===== prelude/chain_lemmas.rs — pure lemmas about chain_wf (no repository code) =====
verus! {

/// facts about a well-formed client used by the bodies of server.rs
pub proof fn lemma_wf_facts(c: CState)
    requires chain_wf(c),
    ensures
        c.exists ==> !stored(c, nil_id()),
        // the latest version has no child; an empty chain has no child links at all
        c.exists ==> !c.children.dom().contains(c.latest) || c.latest == nil_id(),
        c.exists && c.latest == nil_id() ==> c.children =~= IMap::empty() && c.versions =~= IMap::empty(),
        c.exists ==> (c.snapshot is Some <==> c.snapshot_data is Some),
{
    if c.exists {
        let n = choose|n: nat| chain_n(c, n);
        lemma_chain_n_facts(c, n);
    }
}

pub proof fn lemma_chain_n_facts(c: CState, n: nat)
    requires chain_n(c, n),
    ensures
        !stored(c, nil_id()),
        !c.children.dom().contains(c.latest) || c.latest == nil_id(),
        c.latest == nil_id() ==> c.children =~= IMap::empty() && c.versions =~= IMap::empty(),
{
    if stored(c, nil_id()) {
        let k = choose|k: nat| k < n && back(c, k) == nil_id();
        assert(stored(c, back(c, k)));
    }
    if c.children.dom().contains(c.latest) && c.latest != nil_id() {
        let u = c.children[c.latest];
        assert(stored(c, u));
        let k = choose|k: nat| k < n && back(c, k) == u;
        assert(stored(c, back(c, k)));
        assert(back(c, k + 1) == c.latest);
        assert(back(c, 0) == c.latest);
        assert(stored(c, back(c, 0)));
        if k + 1 < n {
            assert(back(c, 0) != back(c, k + 1));
        } else {
            assert(k + 1 == n);
        }
        assert(false);
    }
    if c.latest == nil_id() {
        assert(n == 0);
        assert forall|u: Uuid| !c.versions.dom().contains(u) by {
            if stored(c, u) {
                let k = choose|k: nat| k < n && back(c, k) == u;
            }
        }
        assert forall|p: Uuid| !c.children.dom().contains(p) by {
            if c.children.dom().contains(p) {
                assert(stored(c, c.children[p]));
            }
        }
    }
}

/// after an accepted add_version, every old position moves one step away from the latest
pub proof fn lemma_back_shift(c: CState, v: Uuid, p: Uuid, seg: Seq<u8>, n: nat, k: nat)
    requires
        chain_n(c, n), n >= 1, p == c.latest, k <= n,
        !c.versions.dom().contains(v),
    ensures
        back(add_version_spec(c, v, p, seg), k + 1) == back(c, k),
    decreases k,
{
    let d = add_version_spec(c, v, p, seg);
    assert(back(d, 0) == v);
    if k == 0 {
        assert(back(d, 1) == d.versions[back(d, 0)].parent_version_id);
    } else {
        lemma_back_shift(c, v, p, seg, n, (k - 1) as nat);
        let u = back(c, (k - 1) as nat);
        assert(back(d, k) == u);
        assert(stored(c, back(c, (k - 1) as nat)));
        assert(u != v);
        assert(d.versions[u] == c.versions[u]);
        assert(back(d, k + 1) == (if d.versions.dom().contains(back(d, k)) { d.versions[back(d, k)].parent_version_id } else { nil_id() }));
        assert(back(c, k) == (if c.versions.dom().contains(back(c, (k - 1) as nat)) { c.versions[back(c, (k - 1) as nat)].parent_version_id } else { nil_id() }));
    }
}

pub proof fn lemma_add_version_preserves_wf(c: CState, v: Uuid, p: Uuid, seg: Seq<u8>)
    requires
        chain_wf(c), c.exists, accept(c, p),
        v != nil_id(), v != p, !c.versions.dom().contains(v), !c.children.dom().contains(v),
    ensures
        chain_wf(add_version_spec(c, v, p, seg)),
{
    let n = choose|n: nat| chain_n(c, n);
    lemma_add_version_chain_n(c, v, p, seg, n);
}

pub proof fn lemma_add_version_chain_n(c: CState, v: Uuid, p: Uuid, seg: Seq<u8>, n: nat)
    requires
        chain_n(c, n), accept(c, p),
        v != nil_id(), v != p, !c.versions.dom().contains(v), !c.children.dom().contains(v),
    ensures
        chain_n(add_version_spec(c, v, p, seg), n + 1),
{
    let d = add_version_spec(c, v, p, seg);
    lemma_chain_n_facts(c, n);
    assert(back(d, 0) == v);
    assert(stored(d, v));
    if n == 0 {
        assert(c.versions =~= IMap::empty());
        assert(c.children =~= IMap::empty());
        assert(back(d, 1) == d.versions[back(d, 0)].parent_version_id);
        assert(back(d, 1) == p);
        assert forall|k: nat| k < 1 implies #[trigger] stored(d, back(d, k)) && back(d, k) != nil_id()
            && d.versions[back(d, k)].version_id == back(d, k) by {
            assert(k == 0);
        }
        assert(!stored(d, back(d, 1)));
        assert forall|u: Uuid| #[trigger] stored(d, u) implies exists|k: nat| k < 1 && back(d, k) == u by {
            assert(u == v);
            assert(back(d, 0) == u);
        }
        assert(c.snapshot is None) by {
            if c.snapshot is Some {
                let k = choose|k: nat| k <= n && back(c, k) == c.snapshot->Some_0.version_id;
                assert(k == 0);
            }
        }
        assert(chain_n(d, 1));
    } else {
        assert(c.latest != nil_id());
        assert(p == c.latest);
        assert forall|k: nat| k <= n implies back(d, k + 1) == back(c, k) by {
            lemma_back_shift(c, v, p, seg, n, k);
        }
        // 1. stored positions
        assert forall|k: nat| k < n + 1 implies #[trigger] stored(d, back(d, k)) && back(d, k) != nil_id()
            && d.versions[back(d, k)].version_id == back(d, k) by {
            if k > 0 {
                let k1 = (k - 1) as nat;
                assert(back(d, k1 + 1) == back(c, k1));
                assert(stored(c, back(c, k1)));
            }
        }
        // 2. the base is still not stored
        assert(back(d, n + 1) == back(c, n));
        assert(back(c, n) != v) by {
            // the base is the parent of back(c, n-1), hence a key of `children`
            let k1 = (n - 1) as nat;
            assert(stored(c, back(c, k1)));
            assert(back(c, k1 + 1) == c.versions[back(c, k1)].parent_version_id);
        }
        assert(!stored(d, back(d, n + 1)));
        // 3. distinct
        assert forall|i: nat, j: nat| i < j && j < n + 1 implies back(d, i) != back(d, j) by {
            let j1 = (j - 1) as nat;
            assert(back(d, j1 + 1) == back(c, j1));
            assert(stored(c, back(c, j1)));
            if i > 0 {
                let i1 = (i - 1) as nat;
                assert(back(d, i1 + 1) == back(c, i1));
                assert(back(c, i1) != back(c, j1));
            }
        }
        // 4. no orphans
        assert forall|u: Uuid| #[trigger] stored(d, u) implies exists|k: nat| k < n + 1 && back(d, k) == u by {
            if u == v {
                assert(back(d, 0) == u);
            } else {
                assert(stored(c, u));
                let k = choose|k: nat| k < n && back(c, k) == u;
                assert(back(d, k + 1) == back(c, k));
                assert(k + 1 < n + 1 && back(d, k + 1) == u);
            }
        }
        // 5/6. children is the inverse of the parent links
        assert forall|u: Uuid| #[trigger] stored(d, u) implies
            d.children.dom().contains(d.versions[u].parent_version_id)
            && d.children[d.versions[u].parent_version_id] == u by {
            if u != v {
                assert(stored(c, u));
                assert(c.children.dom().contains(c.versions[u].parent_version_id));
                assert(c.versions[u].parent_version_id != p);
            }
        }
        assert forall|q: Uuid| #[trigger] d.children.dom().contains(q) implies
            stored(d, d.children[q]) && d.versions[d.children[q]].parent_version_id == q by {
            if q != p {
                assert(c.children.dom().contains(q));
                assert(stored(c, c.children[q]));
            }
        }
        // 8. snapshot still on the chain
        if c.snapshot is Some {
            let k = choose|k: nat| k <= n && back(c, k) == c.snapshot->Some_0.version_id;
            assert(back(d, k + 1) == back(c, k));
            assert(k + 1 <= n + 1 && back(d, k + 1) == d.snapshot->Some_0.version_id);
        }
        assert(chain_n(d, n + 1));
    }
}

/// a change that leaves versions / children / latest alone leaves every position alone
pub proof fn lemma_back_same(c: CState, d: CState, k: nat)
    requires d.versions == c.versions, d.latest == c.latest,
    ensures back(d, k) == back(c, k),
    decreases k,
{
    if k > 0 {
        lemma_back_same(c, d, (k - 1) as nat);
    }
}

/// the same with the chain length made explicit
pub proof fn lemma_set_snapshot_chain_n(c: CState, v: Uuid, data: Seq<u8>, t: DateTime<Utc>, n: nat)
    requires
        chain_n(c, n), v != nil_id(),
        exists|k: nat| k < 5 && #[trigger] back(c, k) == v && (forall|j: nat| j < k ==> #[trigger] stored(c, back(c, j))),
    ensures
        chain_n(set_snapshot_spec(c, new_snap(v, t), data), n),
{
    let kv = choose|k: nat| k < 5 && #[trigger] back(c, k) == v && (forall|j: nat| j < k ==> #[trigger] stored(c, back(c, j)));
    assert(kv <= n) by {
        if kv > n {
            assert(stored(c, back(c, n)));
        }
    }
    let d = set_snapshot_spec(c, new_snap(v, t), data);
    assert forall|k: nat| back(d, k) == back(c, k) by { lemma_back_same(c, d, k); }
    assert forall|k: nat| k < n implies #[trigger] stored(d, back(d, k)) && back(d, k) != nil_id()
        && d.versions[back(d, k)].version_id == back(d, k) by {
        assert(stored(c, back(c, k)));
    }
    assert forall|u: Uuid| #[trigger] stored(d, u) implies exists|k: nat| k < n && back(d, k) == u by {
        assert(stored(c, u));
        let k = choose|k: nat| k < n && back(c, k) == u;
        assert(back(d, k) == u);
    }
    assert forall|u: Uuid| #[trigger] stored(d, u) implies
        d.children.dom().contains(d.versions[u].parent_version_id)
        && d.children[d.versions[u].parent_version_id] == u by {
        assert(stored(c, u));
    }
    assert(kv <= n && back(d, kv) == d.snapshot->Some_0.version_id);
}

pub proof fn lemma_set_snapshot_preserves_wf(c: CState, v: Uuid, data: Seq<u8>)
    requires
        chain_wf(c), c.exists, v != nil_id(),
        exists|k: nat| k < 5 && #[trigger] back(c, k) == v && (forall|j: nat| j < k ==> #[trigger] stored(c, back(c, j))),
    ensures
        forall|t: DateTime<Utc>| chain_wf(set_snapshot_spec(c, #[trigger] new_snap(v, t), data)),
{
    let n = choose|n: nat| chain_n(c, n);
    let kv = choose|k: nat| k < 5 && #[trigger] back(c, k) == v && (forall|j: nat| j < k ==> #[trigger] stored(c, back(c, j)));
    assert(kv <= n) by {
        if kv > n {
            assert(stored(c, back(c, n)));
        }
    }
    assert forall|t: DateTime<Utc>| chain_wf(set_snapshot_spec(c, #[trigger] new_snap(v, t), data)) by {
        let d = set_snapshot_spec(c, new_snap(v, t), data);
        assert forall|k: nat| back(d, k) == back(c, k) by { lemma_back_same(c, d, k); }
        assert forall|k: nat| k < n implies #[trigger] stored(d, back(d, k)) && back(d, k) != nil_id()
            && d.versions[back(d, k)].version_id == back(d, k) by {
            assert(stored(c, back(c, k)));
        }
        assert forall|u: Uuid| #[trigger] stored(d, u) implies exists|k: nat| k < n && back(d, k) == u by {
            assert(stored(c, u));
            let k = choose|k: nat| k < n && back(c, k) == u;
            assert(back(d, k) == u);
        }
        assert forall|u: Uuid| #[trigger] stored(d, u) implies
            d.children.dom().contains(d.versions[u].parent_version_id)
            && d.children[d.versions[u].parent_version_id] == u by {
            assert(stored(c, u));
        }
        assert(kv <= n && back(d, kv) == d.snapshot->Some_0.version_id);
        assert(chain_n(d, n));
    }
}

} // verus!
