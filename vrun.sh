#!/bin/bash
# dev helper: regenerate unit $1 and run verus, filtered
cd /verif && ./target/release/tcss-extractor /repo /verif contracts/$1.vspec gen/$1.rs gen/$1.map.json && cd gen && verus $1.rs ${@:2} 2>&1 | grep -v "^   [0-9 ]*:\|omitted" | grep -v "autoderive" | grep -v "^\s*|\s*$\|^$" | grep -v "derive(Clone\|\^\^\^\^\^$\|^ *--> $1.rs:[0-9]*:1[04]$" | head -${LINES_MAX:-150}
