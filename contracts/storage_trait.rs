// ===== contracts/storage_trait.rs — the storage contract (DESIGN.md 4.2) =====
// `trait StorageTxn` / `trait Storage` of core/src/storage.rs with the doc comments made precise.
// The method signatures are checked token-for-token against core/src/storage.rs by the fidelity
// checker on every run (a trait declaration has no body; the contract is the content).
// Server functions see ONLY this contract; backends are checked AGAINST it (U2: proof, SQLite: bounded).

pub trait StorageTxn {
    spec fn view(&self) -> TxnView;

    /// representation invariant of the backend (abstract for callers: established by Storage::txn,
    /// required and re-established by every method)
    spec fn inv(&self) -> bool;

    /// Get information about the client for this transaction
    fn get_client(&mut self) -> (r: anyhow::Result<Option<Client>>)
        requires
            old(self).inv(),
        ensures
            final(self).inv(),
            read_only(old(self)@, final(self)@, r is Err),
            r is Ok ==> r->Ok_0 == client_rec(cs(old(self)@.cur, old(self)@.client_id));

    /// Create the client for this transaction, with the given latest_version_id. The client must
    /// not already exist.
    fn new_client(&mut self, latest_version_id: Uuid) -> (r: anyhow::Result<()>)
        requires
            old(self).inv(),
            !cs(old(self)@.cur, old(self)@.client_id).exists,   // [st.new_client.pre C03 C01 C13]
            !old(self)@.commit_attempted,   // [st.write_before_commit C13 C05]
        ensures
            final(self).inv(),
            r is Ok ==> wrote(old(self)@, final(self)@, new_client_spec(latest_version_id)),
            r is Err ==> write_failed(old(self)@, final(self)@, new_client_spec(latest_version_id));

    /// Set the client's most recent snapshot.
    fn set_snapshot(&mut self, snapshot: Snapshot, data: Vec<u8>) -> (r: anyhow::Result<()>)
        requires
            old(self).inv(),
            cs(old(self)@.cur, old(self)@.client_id).exists,   // [st.set_snapshot.pre C13 C10]
            !old(self)@.commit_attempted,   // [st.write_before_commit C13 C05]
        ensures
            final(self).inv(),
            r is Ok ==> wrote(old(self)@, final(self)@,
                set_snapshot_spec(cs(old(self)@.cur, old(self)@.client_id), snapshot, data@)),
            r is Err ==> write_failed(old(self)@, final(self)@,
                set_snapshot_spec(cs(old(self)@.cur, old(self)@.client_id), snapshot, data@));

    /// Get the data for the most recent snapshot.  The version_id
    /// is used to verify that the snapshot is for the correct version.
    fn get_snapshot_data(&mut self, version_id: Uuid) -> (r: anyhow::Result<Option<Vec<u8>>>)
        requires
            old(self).inv(),
            ({ let c = cs(old(self)@.cur, old(self)@.client_id);
               c.exists && c.snapshot is Some && c.snapshot->Some_0.version_id == version_id }),   // [st.get_snapshot_data.pre C13 C11]
        ensures
            final(self).inv(),
            read_only(old(self)@, final(self)@, r is Err),
            r is Ok ==> ({ let c = cs(old(self)@.cur, old(self)@.client_id);
                match (r->Ok_0, c.snapshot_data) {
                    (Some(d), Some(s)) => d@ == s,
                    (None, None) => true,
                    _ => false,
                } });

    /// Get a version, indexed by parent version id
    fn get_version_by_parent(&mut self, parent_version_id: Uuid) -> (r: anyhow::Result<Option<Version>>)
        requires
            old(self).inv(),
        ensures
            final(self).inv(),
            read_only(old(self)@, final(self)@, r is Err),
            r is Ok ==> ({ let c = cs(old(self)@.cur, old(self)@.client_id);
                if c.children.dom().contains(parent_version_id) && c.versions.dom().contains(c.children[parent_version_id]) {
                    r->Ok_0 is Some && version_view(r->Ok_0->Some_0) == c.versions[c.children[parent_version_id]]
                } else {
                    r->Ok_0 is None
                } });

    /// Get a version, indexed by its own version id
    fn get_version(&mut self, version_id: Uuid) -> (r: anyhow::Result<Option<Version>>)
        requires
            old(self).inv(),
        ensures
            final(self).inv(),
            read_only(old(self)@, final(self)@, r is Err),
            r is Ok ==> ({ let c = cs(old(self)@.cur, old(self)@.client_id);
                if c.versions.dom().contains(version_id) {
                    r->Ok_0 is Some && version_view(r->Ok_0->Some_0) == c.versions[version_id]
                } else {
                    r->Ok_0 is None
                } });

    /// Add a version (that must not already exist), and
    ///  - update latest_version_id
    ///  - increment snapshot.versions_since
    fn add_version(&mut self, version_id: Uuid, parent_version_id: Uuid, history_segment: Vec<u8>) -> (r: anyhow::Result<()>)
        requires
            old(self).inv(),
            ({ let c = cs(old(self)@.cur, old(self)@.client_id);
               &&& c.exists
               &&& !c.versions.dom().contains(version_id)
               &&& !c.children.dom().contains(parent_version_id)
               // A8: fewer than u32::MAX versions between two snapshots
               &&& counter_bound(c) }),   // [st.add_version.pre C13 C01 C02 C07]
            !old(self)@.commit_attempted,   // [st.write_before_commit C13 C05]
        ensures
            final(self).inv(),
            r is Ok ==> wrote(old(self)@, final(self)@,
                add_version_spec(cs(old(self)@.cur, old(self)@.client_id), version_id, parent_version_id, history_segment@)),
            r is Err ==> write_failed(old(self)@, final(self)@,
                add_version_spec(cs(old(self)@.cur, old(self)@.client_id), version_id, parent_version_id, history_segment@));

    /// Commit any changes made in the transaction.  It is an error to call this more than
    /// once.  It is safe to skip this call for read-only operations.
    fn commit(&mut self) -> (r: anyhow::Result<()>)
        requires
            old(self).inv(),
            !old(self)@.commit_attempted,   // [st.commit.pre C13 C05]
        ensures
            final(self).inv(),
            r is Ok ==> committed(old(self)@, final(self)@),
            r is Err ==> commit_failed(old(self)@, final(self)@);
}

pub trait Storage: Send + Sync {
    /// ghost: no transaction is currently open on behalf of the running operation (C03 / O1)
    spec fn may_open(&self) -> bool;

    /// Begin a transaction for the given client ID.
    fn txn(&self, client_id: Uuid) -> (r: anyhow::Result<Box<dyn StorageTxn + '_>>)
        requires
            self.may_open(),   // [st.txn.single C03]
        ensures
            r is Ok ==> open_post(r->Ok_0@, client_id) && r->Ok_0.inv();
}
