"""Per-property configuration and the non-Verus legs (Kani, bounded conformance, counterexample search, replay)."""
import json, os, re, shutil, subprocess, sys, tempfile, time

from vrun import VERIF, REPO, Inconclusive

A = {
    "A1": "A1 id freshness: the value of Uuid::new_v4() is non-nil and differs from every id in the client's state and from the request's parent id (one `assume`, inserted by rule E10 right after the `let x = Uuid::new_v4();` statement; probability argument, not proof)",
    "A2": "A2 std contracts beyond vstd: HashMap::get_mut, obeys_key_model for Uuid and (Uuid,Uuid), derived Clone of Client/Version/Snapshot returns an equal value, Vec<u8>::clone/to_vec preserve contents",
    "A3": "A3 std::sync::Mutex: lock() gives exclusive access until the guard drops; not modelled (rule E11 replaces MutexGuard<Inner> by Inner)",
    "A4": "A4 Rust semantics used by rule E9: `let mut txn = e?; rest` is equivalent to passing txn by unique reference to `rest` and dropping it afterwards",
    "A5": "A5 SQLite/rusqlite: what each SQL statement does with the values bound to it and which row a query returns (unit U6 proves WHICH values the Rust code binds and how it decodes a row, not what the SQL does with them); ToSql / FromSql of the integer and blob types; BEGIN IMMEDIATE excludes other writers until COMMIT/close; closing a connection with an open transaction rolls it back; WAL + default synchronous make COMMIT atomic and durable (none of this is checked here)",
    "A6": "A6 conversions: From<anyhow::Error> for ServerError (thiserror #[from]) yields Other(e); From<T> for T is identity (stand-in trait VerifFrom)",
    "A7": "A7 #[derive(PartialOrd, Ord)] on SnapshotUrgency orders by declaration (None < Low < High) and std::cmp::max returns a maximal argument",
    "A8": "A8 histories: fewer than u32::MAX versions are accepted between two snapshots of one client (the in-memory counter increment is unchecked)",
    "A9": "A9 actix-web / futures stand-ins (contracts written from actix-web 4.10 behaviour): response builders, error constructors and their status codes, header access, payload stream, BytesMut; routing macros, web::Path extraction and middleware application are assumed, not verified",
    "A10": "A10 chrono: Utc::now(), DateTime - DateTime and num_days() are arbitrary values of their types",
    "A11": "A11 Uuid is a 128-bit value with structural equality, nil = 0; to_string/parse_str are uninterpreted injective text",
    "A12": "A12 machine arithmetic: none treated as mathematical — Verus checks every exec + * / for overflow; thresholds in specs are over int",
    "A14": "A14 clap and the option declaration: `command()` (names, environment variables, delimiters and defaults of the five options), `Command::get_matches` and `ServerArgs::new` (iterator adapters over ArgMatches) are assumed to hand main() the values the operator gave by flag or environment variable; the repository's own tests cover exactly that part, the process leg samples it on the real executable",
    "A15": "A15 what main()'s contract cannot say: that the App factory closure configures each worker's App with the captured WebServer (its body is checked for types, borrows and call preconditions only), that HttpServer serves on the addresses it was bound to, that SqliteStorage::new keeps its data in the given directory, and that Server::new keeps the storage it is given (parametricity of `ST: Storage`; Verus cannot relate a Box<dyn Storage> to the value it was made from)",
    "A13": "A13 the extractor (rules E1-E13, fidelity-checked every run), Verus 0.2026.09.13, Z3, Kani 0.68/CBMC, and the hand-written executable oracle of the bounded legs",
}


def tb(*ks):
    return [A[k] for k in ks]


PROP_CFG = {}


def cfg(prop, level, trusted, assumptions=(), not_reached=(), explanation="", legs=()):
    PROP_CFG[prop] = {"level": level, "trusted_base": tb(*trusted), "assumptions": list(assumptions), "not_reached": list(not_reached),
                      "explanation": explanation, "legs": list(legs)}


def match_known(known, prop, o):
    for k in known.get("findings", []):
        if k["property"] == prop and k.get("obligation") == o["id"] and k.get("function") == o["fn"]:
            return k
    return None


# ------------------------------------------------------------------------------------------------ bounded legs (conform crate)
TARGET = os.path.join(VERIF, "target")
CONFORM_BIN = os.path.join(TARGET, "debug", "tcss-conform")
_built = {"done": False}


def repo_hash():
    import hashlib
    h = hashlib.sha256()
    roots = [os.path.join(REPO, d) for d in ("core", "server", "sqlite")] + [os.path.join(VERIF, "conform", "src")]
    files = [os.path.join(REPO, "Cargo.toml"), os.path.join(REPO, "Cargo.lock"), os.path.join(VERIF, "conform", "Cargo.toml"), os.path.join(VERIF, "lib", "procleg.py")]
    for r in roots:
        for dp, dn, fn in os.walk(r):
            dn[:] = [d for d in dn if d != "target"]
            for f in fn:
                if f.endswith((".rs", ".toml")):
                    files.append(os.path.join(dp, f))
    for f in sorted(files):
        try:
            h.update(f.encode())
            h.update(open(f, "rb").read())
        except OSError:
            pass
    return h.hexdigest()


def conform_build():
    if _built["done"]:
        return
    env = dict(os.environ, CARGO_NET_OFFLINE="true", CARGO_TARGET_DIR=TARGET)
    p = subprocess.run(["cargo", "build", "--offline", "--manifest-path", os.path.join(VERIF, "conform", "Cargo.toml")], capture_output=True, text=True, env=env)
    if p.returncode != 0:
        raise Inconclusive("the bounded-leg crate does not build against /repo's current tree (public API changed?): " + p.stderr[-400:])
    _built["done"] = True


def conform_leg(leg, tier, seed, timeout=1500):
    """run one leg of the conform binary (cached on the content of /repo + conform sources)"""
    key = repo_hash()[:24]
    cdir = os.path.join(VERIF, "gen", "cache")
    os.makedirs(cdir, exist_ok=True)
    cp = os.path.join(cdir, "leg-%s-%s-%s-%s.json" % (leg, tier, seed, key))
    if os.path.exists(cp) and not os.environ.get("VERIF_NOCACHE"):
        try:
            d = json.load(open(cp))
            d["cached_for_identical_sources"] = True
            return d
        except Exception:
            pass
    conform_build()
    t0 = time.time()
    try:
        p = subprocess.run([CONFORM_BIN, leg, "--tier", tier, "--seed", str(seed)], capture_output=True, text=True, timeout=timeout)
    except subprocess.TimeoutExpired:
        raise Inconclusive("bounded leg %s timed out" % leg)
    if p.returncode != 0:
        # a panic inside the real code under exploration (e.g. debug overflow) is itself a finding of the leg
        return {"leg": leg, "crashed": True, "stderr": p.stderr[-1500:], "violations": [{"tags": ["*"], "what": "the real code panicked during the bounded run: " + p.stderr[-600:], "trace": []}], "wall_s": time.time() - t0}
    try:
        d = json.loads(p.stdout[p.stdout.index("{"):])
    except Exception:
        raise Inconclusive("bounded leg %s produced no report: %s" % (leg, p.stderr[-300:]))
    d["wall_s"] = round(time.time() - t0, 2)
    json.dump(d, open(cp, "w"))
    return d


def bounded(leg, describe):
    def run(prop, tier, seed):
        d = conform_leg(leg, tier, seed)
        vs = [v for v in d.get("violations", []) if prop in v.get("tags", []) or "*" in v.get("tags", [])]
        rep = {"name": "bounded:" + leg, "bounded": True, "status": "violation" if vs else "passed", "what": describe,
               "wall_s": d.get("wall_s"), "cached_for_identical_sources": d.get("cached_for_identical_sources", False)}
        for k in ("parts", "cases", "fixtures", "versions_read", "cases_with_injected_fault", "cases_where_B_actually_interleaved", "bound", "samples", "requests", "distinct_outcomes"):
            if k in d:
                rep[k] = d[k]
        rep["violations"] = [{"kind": "bounded", "name": "bounded:" + leg, "what": v.get("what", "")[:1500], "counterexample": v} for v in vs[:3]]
        return rep
    return {"name": "bounded:" + leg, "tiers": ("quick", "thorough"), "run": run, "required": True}


EXPLORE = bounded("explore", "model-based exploration of the real Server over InMemoryStorage, SqliteStorage and SqliteStorage re-opened before every request; every response and the complete stored state (through the StorageTxn getters and, for SQLite, independent raw SQL) compared with the executable contract after every request")
FAULTS = bounded("faults", "every storage call of a request (begin, reads, writes, commit) made to fail before / after taking effect, on SQLite behind a fault-injecting Storage wrapper")
SQLCONF = bounded("sqlconf", "method-by-method conformance of sqlite/src/lib.rs to the storage contract (contracts/storage_trait.rs): every StorageTxn method from enumerated states, results and post-states compared with the contract, abstraction by independent raw SQL, commit / drop / re-open")
STANDINS = bounded("standins", "value-level samples of the ASSUMED dependency contracts (actix-web builders / error constructors / header access / BytesMut, uuid text, thiserror From, derived Clone/Ord, HashMap::get_mut, Option::replace) against the real crates; samples an assumption, proves nothing")
FIXTURES = bounded("fixtures", "the committed corpus /verif/fixtures (data directories written by the pinned tree, one with a leftover write-ahead log, each with its recorded logical content) opened with the CURRENT code: everything read back and compared, then each chain extended by a version and a snapshot")
INTERLEAVE = bounded("interleave", "a complete competing library request placed between any two transactions of an HTTP request, on three backend configurations; outcome compared with both one-at-a-time orders")


def search_counterexample(prop, v, tier):
    """a failed deductive obligation: look for a concrete failing input with the bounded legs"""
    legs = []
    if prop in ("C05",):
        legs.append("faults")
    if prop in ("C03",):
        legs.append("interleave")
    if prop in ("C14", "C15", "C16", "C20", "C06"):
        legs.append("http")
    legs.append("explore")
    for leg in legs:
        try:
            d = conform_leg(leg, tier, 0)
        except Inconclusive:
            continue
        vs = [x for x in d.get("violations", []) if prop in x.get("tags", []) or "*" in x.get("tags", [])]
        if not vs:
            vs = d.get("violations", [])
        if vs:
            return {"found_by": "bounded:" + leg, "input": vs[0]}
    return None


def replay(path):
    """re-execute a recorded violation against /repo's current working tree; exit 1 if it still shows, 0 if not"""
    v = json.load(open(path))
    prop = v.get("property")
    print("replay of %s: property=%s" % (path, prop))
    kind = v.get("kind")
    os.environ["VERIF_NOCACHE"] = "1"
    if kind == "obligation":
        import driver
        print("violated obligation: %s in %s (%s), unit %s" % (v.get("obligation"), v.get("function"), v.get("file"), v.get("unit")))
        print("clause: %s" % v.get("clause_text"))
        cex = v.get("counterexample")
        if cex:
            print("concrete failing input found by %s:" % cex.get("found_by"))
            print(json.dumps(cex.get("input"), indent=1)[:4000])
        else:
            print("no concrete failing input was found by the bounded search (no-failing-input-found); verifier output at the time:")
            for d in v.get("diagnostics", [])[:2]:
                print(d.get("verifier_output", ""))
        try:
            r = driver.run_unit(v["unit"])
        except Inconclusive as e:
            print("re-run inconclusive:", e)
            return 2
        base = v.get("obligation", "").split("@")[0]
        still = [o for o in r["obligations"] if o["status"] == "failed" and (o["id"] == v.get("obligation") or o["id"].split("@")[0] == base)]
        if still:
            print("RE-RUN: the verifier still rejects this obligation on the current tree:")
            for d in still[0]["diags"][:2]:
                print(d.get("rendered", ""))
            return 1
        print("RE-RUN: the obligation is discharged on the current tree")
        return 0
    if kind == "bounded":
        leg = v.get("name", "").split(":", 1)[1]
        cex = v.get("counterexample", {})
        print("bounded leg %s; recorded failing input:" % leg)
        print(json.dumps(cex, indent=1)[:4000])
        if leg == "process":
            import procleg
            try:
                d = procleg.run(False, 0)
            except procleg.Skip as e:
                print("re-run inconclusive:", e)
                return 2
        else:
            d = conform_leg(leg, "quick", 0)
        vs = [x for x in d.get("violations", []) if prop in x.get("tags", []) or "*" in x.get("tags", [])]
        if vs:
            print("RE-RUN on the real code: the leg fails again, e.g.:")
            print(json.dumps(vs[0], indent=1)[:3000])
            return 1
        print("RE-RUN on the real code: no violation for %s" % prop)
        return 0
    if kind == "kani":
        print(json.dumps(v.get("counterexample"), indent=1)[:4000])
        d = kani_urgency()
        if d.get("violations"):
            print("RE-RUN: Kani refutes again:", d["violations"][0]["what"])
            return 1
        print("RE-RUN: all Kani harnesses pass")
        return 0
    print(json.dumps(v, indent=1)[:3000])
    return 1


# ------------------------------------------------------------------------------------------------ configuration
# (placed after the leg definitions)
def _configure():
    NR_SQL = "what SQLite DOES with a statement (sqlite/src/lib.rs: the SQL text, the schema, SqliteStorage::new) is executed by a C library: no deductive contract can be discharged for it; it is covered only by the bounded legs (bounded_checks). What is RUST in that file -- which values every statement binds (always the client id the transaction was opened for), how rows are decoded, that BEGIN / COMMIT errors are propagated -- is under contract in unit U6 (enc.*, dec.*, commit.propagates, txn.client) relative to the assumed rusqlite stand-ins (A5)"
    NR_HTTP = "the HTTP layer is verified against actix-web stand-ins (A9): routing macros, web::Path extraction, middleware application and the real socket are not reached"
    NR_MEM = "core/src/inmemory.rs: locking (Mutex) is not modelled (A3)"
    cfg("C01", "proof", ["A1", "A2", "A4", "A6", "A8", "A11", "A13"], assumptions=[A["A1"], A["A8"]], not_reached=[NR_SQL, NR_MEM],
        explanation="chain_wf (one unbranched chain, child index = inverse of parent links, no orphans, snapshot on chain) is an invariant: preserved by every contracted operation (av.inv, snap.inv, read-only clauses), the storage preconditions that protect it are discharged at every call site (st.*.pre), and the history lemmas (unit L) lift it to all finite histories and to the walk from the base",
        legs=[EXPLORE, INTERLEAVE, SQLCONF, HTTP, XCHECK])
    cfg("C02", "proof", ["A1", "A4", "A6", "A8", "A11", "A12", "A13"], assumptions=[A["A1"], A["A8"]], not_reached=[NR_SQL, NR_HTTP],
        explanation="postconditions av.accept_iff / av.accepted_state / av.rejected / av.id_from_v4 / av.ack_after_commit of the real Server::add_version, for every abstract pre-state satisfying chain_wf, every parent id, payload and placement of storage faults; enc.av for the HTTP entry point",
        legs=[EXPLORE, SQLCONF, HTTP, INTERLEAVE, FAULTS, XCHECK])
    cfg("C03", "proof", ["A3", "A4", "A5", "A13"], assumptions=[A["A3"], A["A5"], "the reduction from interleavings to the three sequential obligations O1-O3 is a paper argument (DESIGN.md 5.C03), not machine-checked"],
        not_reached=["lock-wait budget / busy timeouts; anything inside SQLite or Mutex; partial overlap inside a transaction is excluded by A3/A5, not checked", NR_SQL],
        explanation="three sequential obligations: O1 every Server operation uses exactly one transaction opened for its own client (E9 twin + may_open); O2 every storage precondition in a handler is established inside the same transaction (Server::txn returns an arbitrary invariant-satisfying state); O3 effects reach durable state only through one commit and success is reported only after it",
        legs=[INTERLEAVE, EXPLORE, SQLCONF])
    cfg("C05", "proof", ["A4", "A5", "A6", "A13"], assumptions=[A["A5"]],
        not_reached=["error propagation inside sqlite/src/lib.rs is under contract for commit (commit.propagates: Ok only after the COMMIT statement succeeded), for BEGIN (txn.client) and, through `?` (E3), for every write statement of unit U6 (enc.*: `r is Ok` iff the statement succeeded); what SQLite does when a statement fails half-way, and Drop of the connection (implicit rollback), are assumed (A5); the bounded fault leg injects faults at the StorageTxn boundary only", NR_HTTP],
        explanation="the storage contract lets every call fail (fault counter); *.err_only_on_fault, av.err_atomic, *.ack_after_commit, *.drop_clean and enc.* (Other => 500) are proved for every placement of failures",
        legs=[FAULTS, HTTP, STANDINS, SQLCONF])
    cfg("C06", "proof", ["A2", "A4", "A9", "A13"], not_reached=[NR_SQL, NR_HTTP],
        explanation="Seq<u8> equalities end to end: handler passes exactly the concatenation of the chunks for every chunking (body.loop.*), library stores and returns the same sequence (av.accepted_state, gcv.found, gs.pair), handlers put exactly those bytes in the response body (enc.*)",
        legs=[EXPLORE, SQLCONF, HTTP, STANDINS])
    cfg("C07", "proof", ["A1", "A4", "A13"], assumptions=[A["A1"]], not_reached=[NR_SQL, NR_MEM],
        explanation="every operation's postcondition fixes the whole post-state as a function of the pre-state in which existing versions / child links are only ever extended (add_version_spec inserts a fresh key; all other outcomes leave the maps equal); lemma L.immutable",
        legs=[EXPLORE, SQLCONF, HTTP])
    cfg("C08", "proof", ["A4", "A6", "A11", "A13"], not_reached=[NR_SQL, NR_HTTP],
        explanation="gcv.found / gcv.split / gcv.nosuch of the real Server::get_child_version share the spec fn accept() with av.accept_iff of Server::add_version; gcv.answer_sound: for every placement of storage failures an answer is given only for an existing client and is \"found\" exactly when the parent has a child; on the SQLite side the child look-up binds (parent id, this client id) and decodes the row by column name (unit U6: dec.child.bound, dec.version)",
        legs=[EXPLORE, FAULTS, XCHECK])
    cfg("C09", "proof", ["A2", "A4", "A9", "A13"], not_reached=[NR_SQL, NR_MEM, "header parsing by actix"],
        explanation="frame clauses: every storage write is a whole-database equation cur' = cur[client := n]; every Server operation changes at most its own client's durable state (*.frame) through a transaction opened for its own id (E9 twin); the client id comes only from the header (hdr.ok); two-run lemma L.isolation",
        legs=[EXPLORE, SQLCONF])
    cfg("C10", "proof", ["A4", "A6", "A10", "A11", "A13"], not_reached=[NR_SQL],
        explanation="acceptance predicate snap_should_accept written from the statement (literal 5; corner v = non-nil base left free); loop invariant of the bounded walk; declined => untouched; success either way",
        legs=[EXPLORE, SQLCONF, INTERLEAVE, XCHECK])
    cfg("C11", "proof", ["A4", "A6", "A13"], not_reached=[NR_SQL, "schedules (AddSnapshot overlapping GetSnapshot) only via C03's reduction"],
        explanation="gs.pair / gs.none (id and bytes of the stored snapshot, both written by one set_snapshot call: snap.applied), chain_wf's snapshot conjunct (snapshot version on the chain or its base) preserved by every operation, walk lemma L.snap_base",
        legs=[EXPLORE, SQLCONF, HTTP, INTERLEAVE, FAULTS, XCHECK])
    cfg("C12", "proof", ["A7", "A8", "A10", "A12", "A13"], assumptions=[A["A7"], A["A8"]], not_reached=[NR_SQL, "the wall clock (A10)", "configuration wiring in main (C17)"],
        explanation="threshold functions equal floor(3t/2)/t spec for ALL targets without overflow (Verus over all i64/u32), urgency = max of both from the pre-request record (av.urgency), counter bumped by add_version_spec and reset by new_snap (storage contract)",
        legs=[EXPLORE, KANI_URGENCY, SQLCONF, STANDINS, XCHECK])
    cfg("C13", "exploration", ["A5", "A13"], not_reached=["what SQLite does with a statement is ONLY bounded; proved parts: server.rs never calls storage outside the documented preconditions (st.*.pre call-site obligations), the contract is functional, inmemory.rs refines it (U2), and on the SQLite side the values the Rust code binds to EVERY statement (writes and reads; always the client id the transaction was opened for: txn.client, *.bound), the way it decodes client / version / snapshot rows, and the propagation of BEGIN / COMMIT failures (units U5, U6: enc.*, dec.*, commit.propagates, txn.client)"],
        explanation="bounded: the same executable contract is the oracle for all three backend configurations (in-memory, SQLite, SQLite re-opened before every request), so equal histories give equal responses up to ids/clock",
        legs=[EXPLORE, SQLCONF, XCHECK])
    cfg("C14", "proof", ["A9", "A11", "A13"], assumptions=[A["A9"]], not_reached=[NR_HTTP],
        explanation="enc.* postconditions of the four real handlers and server_error_to_actix / failure_to_ise: for EVERY possible library outcome the status, exact header list, content type and body are as the statement says (relative to the actix stand-ins)",
        legs=[HTTP, STANDINS])
    cfg("C15", "proof", ["A9", "A11", "A12", "A13"], assumptions=[A["A9"]], not_reached=[NR_HTTP, "malformed path ids, unknown routes/methods: actix routing, assumed"],
        explanation="hdr.* / refuse.* / body.loop.*: any header bytes, content type and chunk stream either reach the library with exactly flat(chunks) (0 < size <= 100 MiB inclusive) or are refused with 4xx and an unchanged call log; no arithmetic overflow",
        legs=[HTTP, STANDINS])
    cfg("C16", "proof", ["A2", "A9", "A13"], assumptions=[A["A9"]], not_reached=[NR_HTTP, "WebServer::new wiring (one constructor call) is covered by the bounded HTTP leg only"],
        explanation="client_id_header's postconditions (hdr.*) + the `authorised` precondition on every library entry point reachable from the handlers (auth.pre.*): a handler cannot reach the library, not even to open a transaction, for an id the allow-list excludes; 403 => call log unchanged",
        legs=[HTTP, STANDINS])
    cfg("C19", "other", ["A5", "A11", "A13"], assumptions=[A["A11"], "the corpus was written by the tree pinned for this task (HEAD 8109860 = the pinned commit a6bc6ed + the two `fix:` commits, neither of which touches the sqlite crate: `git diff a6bc6ed HEAD -- sqlite` is empty)"],
        not_reached=[NR_SQL, "the schema and every SQL statement (table / column names and meaning, timestamp unit, migration steps): SQL text, covered only by the fixture corpus", "databases left by a crash in the middle of a write (C04); the corpus holds clean images and one image with an un-checkpointed WAL"],
        explanation="what of the on-disk form is Rust is under contract: StoredUuid's ToSql / FromSql impls (sqlite/src/lib.rs) write an id as owned TEXT holding exactly its canonical text and read it back by parsing that text, never inventing an id (enc.id.write, enc.id.read, round-trip lemma enc.id.roundtrip over the assumed uuid text law A11); and unit U6 proves which values, in which order, unit and form, Txn::new_client / set_snapshot / add_version bind to their statements (timestamp in whole seconds, the given counter, the ids as text, the bytes as blobs: enc.new_client, enc.snapshot.write, enc.version.write), how get_client decodes a row (dec.client), and how the read path (get_version_impl / get_version / get_version_by_parent / get_snapshot_data) binds ids in their text form and decodes rows BY COLUMN NAME (version_id, parent_version_id, history_segment, snapshot_version_id, snapshot: dec.version*, dec.child.bound, dec.snapshot*), without pinning any SQL text. Everything else that decides whether an old database is still served -- schema, column meaning, timestamp unit, start-up statements -- is SQL and is decided only for the committed corpus: 4 data directories written by the pinned tree, opened, read completely, compared with their recorded content and extended. 'other': a relation between two builds is not a contract on one of them",
        legs=[FIXTURES, SQLCONF, STANDINS])
    cfg("C20", "other", ["A9", "A13"], assumptions=[A["A9"], "that actix-web applies a scope's middleware to EVERY response of the scope (errors, unknown routes) is assumed, not verified"],
        not_reached=[NR_HTTP, "other middleware wrapped by the binary's main() around the whole App (ErrorHandlers, Logger)"],
        explanation="structural obligation cfg.cache on the real WebServer::config: exactly one scope is registered, wrapped by exactly one middleware, a DefaultHeaders adding Cache-Control with a value that forbids storage, and nothing else is wrapped around it; the implication to 'every response' rests on the assumed actix contract; the bounded HTTP leg checks the header on every response it sees (all routes, outcomes, refusals, unknown routes, storage failures)",
        legs=[HTTP, STANDINS])
    cfg("C17", "other", ["A9", "A14", "A15", "A13"], assumptions=[A["A14"], A["A15"]],
        not_reached=["flag / environment parsing (clap) and the option declaration command()", "socket binding and serving (actix HttpServer, the OS)", "sqlite/src/lib.rs (where the data directory is used)",
                     "the App factory closure's effect (which WebServer each worker's App is configured with)", "that the process observed from outside behaves as wired: only the bounded process leg looks at the running executable"],
        explanation="ServerArgs::new (option ids -> struct: args.new, proved on the real text over name-keyed clap stand-ins since the second session) and the wiring in main() -- the only code between parsed options and the running server, and code no test executes -- are under contract: on the real main(), for EVERY value clap can hand over, the ServerConfig is built from exactly the configured snapshot targets, the allow-list and data directory reach WebServer::new / SqliteStorage::new unchanged (wire.server), and the server is started only after being bound to every configured address, in order, and to nothing else (wire.listen, loop invariant over the address list, no bound); below main, cfg.wiring / cfg.allowlist (U3, real WebServer::new) and server.new (U1, real Server::new) carry the configuration into the library handle every request is served with, and h.*.state says no request changes it. 'other', not 'proof': the statement is about a running process; parsing, sockets, SQLite and the factory closure are assumed (A14, A15) and only sampled by the process leg",
        legs=[PROCESS, STANDINS])
    cfg("C18", "proof", ["A4", "A6", "A11", "A13"], not_reached=[NR_SQL],
        explanation="every non-mutating outcome (reads, conflict, declined snapshot, unknown client, refused request) leaves the whole transaction view / call log equal up to the fault counter",
        legs=[EXPLORE, SQLCONF, HTTP, XCHECK])


def process_leg(prop, tier, seed):
    import procleg
    key = repo_hash()[:24]
    cdir = os.path.join(VERIF, "gen", "cache")
    os.makedirs(cdir, exist_ok=True)
    cp = os.path.join(cdir, "leg-process-%s-%s-%s.json" % (tier, seed, key))
    d = None
    if os.path.exists(cp) and not os.environ.get("VERIF_NOCACHE"):
        try:
            d = json.load(open(cp))
            d["cached_for_identical_sources"] = True
        except Exception:
            d = None
    if d is None:
        t0 = time.time()
        try:
            d = procleg.run(tier == "thorough", seed)
        except procleg.Skip as e:
            raise Inconclusive("process leg: %s" % e)
        d["wall_s"] = round(time.time() - t0, 2)
        json.dump(d, open(cp, "w"))
    vs = d.get("violations", [])
    rep = {"name": "bounded:process", "bounded": True, "status": "violation" if vs else "passed",
           "what": "the REAL executable (built from /repo by its own manifest) started with sampled operator configurations given by flag / environment variable, observed over loopback HTTP, with kill -9 and restarts on the same data directory",
           "wall_s": d.get("wall_s"), "cached_for_identical_sources": d.get("cached_for_identical_sources", False)}
    for k in ("cases", "configurations", "requests", "bound", "samples"):
        if k in d:
            rep[k] = d[k]
    rep["violations"] = [{"kind": "bounded", "name": "bounded:process", "what": v.get("what", "")[:1500], "counterexample": v} for v in vs[:3]]
    return rep


PROCESS = {"name": "bounded:process", "tiers": ("quick", "thorough"), "run": process_leg, "required": True}
KANI_URGENCY = {"name": "kani:urgency", "tiers": ("quick", "thorough"), "run": lambda prop, tier, seed: kani_urgency(), "required": False}
HTTP = bounded("http", "requests through the real actix handlers (in process): outcome encoding compared with the executable contract, body chunkings and sizes, malformed requests, allow-lists, Cache-Control")


def oracle_xcheck():
    """thorough tier: the executable oracle of the bounded legs (conform/src/model.rs) is cross-checked against the Verus
    specification functions it restates, on sampled concrete states (unit X)."""
    import vrun as _v
    conform_build()
    p = subprocess.run([CONFORM_BIN, "xcheck-gen"], capture_output=True, text=True, timeout=300)
    if p.returncode != 0:
        raise Inconclusive("xcheck-gen failed: " + p.stderr[-300:])
    os.makedirs(_v.GEN, exist_ok=True)
    open(os.path.join(VERIF, "gen", "xsamples.rs"), "w").write(p.stdout)
    m = re.search(r"(\d+) facts", p.stdout[:200])
    r = _v.run_verus("x")
    bad = [d for d in r["diags"]]
    rep = {"name": "oracle-xcheck", "bounded": True, "status": "passed" if (r["success"] and not bad) else "disagreement",
           "what": "translation validation by sampling of the hand-written oracle: concrete client states (chains of 0-7 versions, nil / non-nil base, snapshot at several positions) with the values conform/src/model.rs computes for back, accept, gcv_spec, snap_should_accept, snap_corner and urgency_spec, emitted as Verus proof fns over the real spec functions",
           "facts": int(m.group(1)) if m else None, "proof_fns_verified": r.get("verified"), "wall_s": round(r["wall_s"], 1), "violations": []}
    if rep["status"] != "passed":
        raise Inconclusive("the executable oracle and the Verus specification disagree (or a sample proof needs a hint): %s" % (bad[0]["rendered"][:300] if bad else r.get("stderr_tail", "")[-300:]))
    return rep


XCHECK = {"name": "oracle-xcheck", "tiers": ("thorough",), "run": lambda prop, tier, seed: oracle_xcheck(), "required": True}


def kani_urgency():
    """Kani/CBMC, loop-free harnesses over kani::any(): full-domain proofs (C12) and the Ord axiom A7.
    The real core crate of /repo's working tree is copied to a scratch directory, the harness module is appended
    to the COPY of server.rs (the functions are private), cargo kani runs there, the copy is removed."""
    import hashlib
    key = repo_hash()[:24]
    cdir = os.path.join(VERIF, "gen", "cache")
    os.makedirs(cdir, exist_ok=True)
    cp = os.path.join(cdir, "kani-urgency-%s.json" % key)
    if os.path.exists(cp) and not os.environ.get("VERIF_NOCACHE"):
        try:
            d = json.load(open(cp))
            d["cached_for_identical_sources"] = True
            return d
        except Exception:
            pass
    t0 = time.time()
    scratch = tempfile.mkdtemp(prefix="tcss-kani-")
    try:
        shutil.copytree(os.path.join(REPO, "core"), os.path.join(scratch, "core"), ignore=shutil.ignore_patterns("target"))
        for f in ("Cargo.toml", "Cargo.lock"):
            shutil.copy(os.path.join(REPO, f), os.path.join(scratch, f))
        ct = open(os.path.join(scratch, "Cargo.toml")).read()
        ct = re.sub(r'\n\s*"server",', "", ct)
        ct = re.sub(r'\n\s*"sqlite",', "", ct)
        open(os.path.join(scratch, "Cargo.toml"), "w").write(ct)
        harness = open(os.path.join(VERIF, "kani", "urgency_harness.rs")).read()
        with open(os.path.join(scratch, "core", "src", "server.rs"), "a") as f:
            f.write(harness)
        env = dict(os.environ, CARGO_NET_OFFLINE="true")
        cmd = ["cargo", "kani", "-p", "taskchampion-sync-server-core", "--target-dir", os.path.join(TARGET, "kani"), "-Z", "concrete-playback", "--concrete-playback=print"]
        try:
            p = subprocess.run(cmd, cwd=scratch, capture_output=True, text=True, env=env, timeout=900)
        except subprocess.TimeoutExpired:
            raise Inconclusive("kani timed out")
        out = p.stdout + p.stderr
    finally:
        shutil.rmtree(scratch, ignore_errors=True)
    harnesses = []
    cur = None
    for line in out.splitlines():
        m = re.match(r"Checking harness (\S+?)\.\.\.", line)
        if m:
            cur = {"harness": m.group(1), "status": None, "failed_checks": []}
            harnesses.append(cur)
        elif cur is not None and line.startswith("VERIFICATION:-"):
            cur["status"] = line.split(":-")[1].strip()
        elif cur is not None and line.startswith("Failed Checks:"):
            cur["failed_checks"].append(line[len("Failed Checks:"):].strip())
        elif cur is not None and line.startswith("Verification Time:"):
            cur["time_s"] = float(line.split(":")[1].strip().rstrip("s"))
    if not harnesses:
        raise Inconclusive("kani produced no harness results (the harness no longer compiles against core/src/server.rs?): " + out[-400:])
    playback = re.findall(r"```\n(.*?)```", out, re.S)
    viol = []
    for h in harnesses:
        if h["status"] != "SUCCESSFUL":
            viol.append({"kind": "kani", "name": "kani:" + h["harness"], "what": "Kani/CBMC refuted harness %s: %s" % (h["harness"], "; ".join(h["failed_checks"][:4])),
                         "counterexample": {"harness": h["harness"], "failed_checks": h["failed_checks"], "concrete_playback_unit_test": playback[:2]}})
    d = {"name": "kani:urgency", "bounded": False, "status": "violation" if viol else "passed", "backend": "kani-0.68/cbmc-6.11",
         "what": "loop-free harnesses over kani::any(): for_days / for_versions_since equal the widened-arithmetic spec for every target and measure, never panic for any i64/u32 target, high threshold >= low, monotone in the measure; derived Ord on SnapshotUrgency (A7). Loop-free and full-domain: complete proofs, not bounded.",
         "cmd": " ".join(cmd) + "   (in a scratch copy of /repo/core with kani/urgency_harness.rs appended to server.rs)", "harnesses": harnesses,
         "obligations": len(harnesses), "discharged": len([h for h in harnesses if h["status"] == "SUCCESSFUL"]), "violations": viol, "wall_s": round(time.time() - t0, 1)}
    json.dump(d, open(cp, "w"))
    return d


_configure()
