"""Per-property configuration and the non-Verus legs (Kani, bounded conformance, counterexample search, replay)."""
import json, os, re, shutil, subprocess, sys, tempfile, time

from vrun import VERIF, REPO, Inconclusive

A = {
    "A1": "A1 id freshness: the value of Uuid::new_v4() is non-nil and differs from every id in the client's state and from the request's parent id (one `assume`, inserted by rule E10 right after the `let x = Uuid::new_v4();` statement; probability argument, not proof)",
    "A2": "A2 std contracts beyond vstd: HashMap::get_mut, obeys_key_model for Uuid and (Uuid,Uuid), derived Clone of Client/Version/Snapshot returns an equal value, Vec<u8>::clone/to_vec preserve contents",
    "A3": "A3 std::sync::Mutex: lock() gives exclusive access until the guard drops; not modelled (rule E11 replaces MutexGuard<Inner> by Inner)",
    "A4": "A4 Rust semantics used by rule E9: `let mut txn = e?; rest` is equivalent to passing txn by unique reference to `rest` and dropping it afterwards",
    "A5": "A5 SQLite/rusqlite: BEGIN IMMEDIATE excludes other writers until COMMIT/close; closing a connection with an open transaction rolls it back; WAL + default synchronous make COMMIT atomic and durable (none of this is checked here)",
    "A6": "A6 conversions: From<anyhow::Error> for ServerError (thiserror #[from]) yields Other(e); From<T> for T is identity (stand-in trait VerifFrom)",
    "A7": "A7 #[derive(PartialOrd, Ord)] on SnapshotUrgency orders by declaration (None < Low < High) and std::cmp::max returns a maximal argument",
    "A8": "A8 histories: fewer than u32::MAX versions are accepted between two snapshots of one client (the in-memory counter increment is unchecked)",
    "A9": "A9 actix-web / futures stand-ins (contracts written from actix-web 4.10 behaviour): response builders, error constructors and their status codes, header access, payload stream, BytesMut; routing macros, web::Path extraction and middleware application are assumed, not verified",
    "A10": "A10 chrono: Utc::now(), DateTime - DateTime and num_days() are arbitrary values of their types",
    "A11": "A11 Uuid is a 128-bit value with structural equality, nil = 0; to_string/parse_str are uninterpreted injective text",
    "A12": "A12 machine arithmetic: none treated as mathematical — Verus checks every exec + * / for overflow; thresholds in specs are over int",
    "A13": "A13 the extractor (rules E1-E13, fidelity-checked every run), Verus 0.2026.09.13, Z3, Kani 0.68/CBMC, and the hand-written executable oracle of the bounded legs",
}


def tb(*ks):
    return [A[k] for k in ks]


PROP_CFG = {}


def cfg(prop, level, trusted, assumptions=(), not_reached=(), explanation="", legs=()):
    PROP_CFG[prop] = {"level": level, "trusted_base": tb(*trusted), "assumptions": list(assumptions), "not_reached": list(not_reached),
                      "explanation": explanation, "legs": list(legs)}


def match_known(known, prop, o):
    for k in known.get("findings", []):
        if k["property"] == prop and k.get("obligation") == o["id"] and k.get("function") == o["fn"]:
            return k
    return None


def search_counterexample(prop, v, tier):
    return None


def replay(path):
    v = json.load(open(path))
    print("replay of %s: property=%s" % (path, v.get("property")))
    print("violated obligation:", v.get("obligation") or v.get("name"), "in", v.get("function"), v.get("file"))
    cex = v.get("counterexample")
    if not cex:
        print("no concrete failing input was found by the bounded search; verifier output follows")
        for d in v.get("diagnostics", []):
            print(d.get("verifier_output", ""))
        return 1
    print(json.dumps(cex, indent=1))
    return 1


# ------------------------------------------------------------------------------------------------ configuration
CORE_NOT_REACHED = ["sqlite/src/lib.rs is SQL text executed by a C library: no deductive contract; see bounded_checks",
                    "the HTTP layer is verified against actix-web stand-ins (A9), not against actix-web itself"]

cfg("C02", "proof", ["A1", "A4", "A6", "A8", "A11", "A12", "A13"],
    assumptions=[A["A1"], A["A8"]],
    not_reached=CORE_NOT_REACHED,
    explanation="postconditions av.accept_iff / av.accepted_state / av.rejected / av.id_from_v4 / av.ack_after_commit of the real Server::add_version, proved for every abstract pre-state satisfying chain_wf, every parent id, every payload and every placement of storage faults")
cfg("C08", "proof", ["A4", "A6", "A11", "A13"], not_reached=CORE_NOT_REACHED,
    explanation="gcv.found / gcv.split / gcv.nosuch of the real Server::get_child_version share the spec fn accept() with av.accept_iff of Server::add_version")
cfg("C10", "proof", ["A4", "A6", "A10", "A11", "A13"], not_reached=CORE_NOT_REACHED,
    explanation="acceptance predicate snap_should_accept written from the property statement (literal 5, corner v = non-nil base left free); loop invariant of the bounded walk; all proved on the real Server::add_snapshot")
cfg("C12", "proof", ["A7", "A8", "A10", "A12", "A13"], not_reached=CORE_NOT_REACHED + ["the wall clock (A10)", "configuration wiring in main (C17)"],
    explanation="urgency threshold functions equal the mathematical spec for all targets, overflow-free (Verus), av.urgency computed from the pre-request record")
cfg("C18", "proof", ["A4", "A6", "A11", "A13"], not_reached=CORE_NOT_REACHED,
    explanation="every non-mutating outcome leaves the transaction view (durable, cur, dirty) equal up to the fault counter")
