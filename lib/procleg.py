"""Bounded leg for C17: the REAL executable (built from /repo's working tree by its own manifest), started with
operator configurations given by flag or by environment variable, observed over loopback HTTP, including
kill -9 and restart on the same data directory.  Samples configurations; proves nothing.

Every expectation is taken from the property statement (C17) and the protocol (C12's "has reached its target"),
never from the code: where the statement leaves an off-by-one open (is the version being added counted?), both
readings are accepted but the SAME reading must hold for every configured value.
"""
import http.client, json, os, random, shutil, signal, socket, sqlite3, subprocess, tempfile, time, uuid

VERIF = os.path.dirname(os.path.dirname(os.path.abspath(__file__)))
REPO = os.environ.get("VERIF_REPO", "/repo")
TARGET = os.path.join(VERIF, "target", "repo")
BIN = os.path.join(TARGET, "debug", "taskchampion-sync-server")
HS = "application/vnd.taskchampion.history-segment"
SN = "application/vnd.taskchampion.snapshot"
NIL = "00000000-0000-0000-0000-000000000000"


class Skip(Exception):
    pass


def build():
    env = dict(os.environ, CARGO_NET_OFFLINE="true", CARGO_TARGET_DIR=TARGET)
    p = subprocess.run(["cargo", "build", "--offline", "--manifest-path", os.path.join(REPO, "Cargo.toml"), "-p", "taskchampion-sync-server",
                        "--bin", "taskchampion-sync-server"], capture_output=True, text=True, env=env)
    if p.returncode != 0:
        raise Skip("the server binary does not build on this tree: " + p.stderr[-600:])
    return BIN


def free_port(host="127.0.0.1"):
    fam = socket.AF_INET6 if ":" in host else socket.AF_INET
    s = socket.socket(fam)
    s.bind((host, 0))
    p = s.getsockname()[1]
    s.close()
    return p


class Proc:
    def __init__(self, cfg, how):
        """cfg: dict(listen=[(host,port)], data_dir, allow=None|[ids], versions=None|int, days=None|int); how: 'flag' | 'env' | 'mixed'"""
        self.cfg = cfg
        args, env = [BIN], {k: v for k, v in os.environ.items() if k not in ("LISTEN", "DATA_DIR", "CLIENT_ID", "SNAPSHOT_VERSIONS", "SNAPSHOT_DAYS")}
        env["RUST_LOG"] = "error"
        addrs = ["%s:%d" % (("[%s]" % h if ":" in h else h), p) for h, p in cfg["listen"]]
        use_env = lambda i: how == "env" or (how == "mixed" and i % 2 == 0)
        if use_env(0):
            env["LISTEN"] = ",".join(addrs)
        else:
            for a in addrs:
                args += ["--listen", a]
        if use_env(1):
            env["DATA_DIR"] = cfg["data_dir"]
        else:
            args += ["--data-dir", cfg["data_dir"]]
        if cfg.get("allow") is not None:
            if use_env(2):
                env["CLIENT_ID"] = ",".join(cfg["allow"])
            else:
                for c in cfg["allow"]:
                    args += ["--allow-client-id", c]
        if cfg.get("versions") is not None:
            if use_env(3):
                env["SNAPSHOT_VERSIONS"] = str(cfg["versions"])
            else:
                args += ["--snapshot-versions", str(cfg["versions"])]
        if cfg.get("days") is not None:
            if use_env(4):
                env["SNAPSHOT_DAYS"] = str(cfg["days"])
            else:
                args += ["--snapshot-days", str(cfg["days"])]
        self.cmdline = " ".join(["%s=%s" % (k, env[k]) for k in ("LISTEN", "DATA_DIR", "CLIENT_ID", "SNAPSHOT_VERSIONS", "SNAPSHOT_DAYS") if k in env] + args[1:])
        self.p = subprocess.Popen(args, env=env, stdout=subprocess.DEVNULL, stderr=subprocess.PIPE, cwd=cfg.get("cwd"))
        try:
            self.wait_up()
        except Exception:
            self.kill()
            raise

    def wait_up(self):
        t0 = time.time()
        h, p = self.cfg["listen"][0]
        while time.time() - t0 < 15:
            if self.p.poll() is not None:
                raise RuntimeError("server exited at start-up (%s): %s" % (self.cmdline, self.p.stderr.read().decode(errors="replace")[-400:]))
            try:
                s = socket.create_connection((h, p), timeout=0.5)
                s.close()
                return
            except OSError:
                time.sleep(0.05)
        raise RuntimeError("server did not start listening within 15 s (%s)" % self.cmdline)

    def kill(self):
        if self.p.poll() is None:
            self.p.send_signal(signal.SIGKILL)
            self.p.wait()
        try:
            self.p.stderr.close()
        except Exception:
            pass


def req(addr, method, path, client, body=None, ctype=None):
    h, p = addr
    c = http.client.HTTPConnection(h, p, timeout=10)
    hd = {"X-Client-Id": client}
    if ctype:
        hd["Content-Type"] = ctype
    c.request(method, path, body=body, headers=hd)
    r = c.getresponse()
    data = r.read()
    out = (r.status, {k.lower(): v for k, v in r.getheaders()}, data)
    c.close()
    return out


def add_version(addr, client, parent, body):
    return req(addr, "POST", "/v1/client/add-version/" + parent, client, body, HS)


def urgency(hd):
    v = hd.get("x-snapshot-request")
    return {None: "none", "urgency=low": "low", "urgency=high": "high"}.get(v, "?" + str(v))


def run(thorough, seed):
    rnd = random.Random(seed)
    build()
    cases, requests, violations, samples = 0, [0], [], []
    base = tempfile.mkdtemp(prefix="tcss-proc-", dir="/dev/shm" if os.path.isdir("/dev/shm") else None)

    def viol(what, proc, extra=None):
        if len(violations) < 8:
            violations.append({"tags": ["C17"], "what": what, "configuration": proc.cmdline if proc else None, "trace": extra or []})

    hows = ["flag", "env", "mixed"]
    vers_values = [2, 3, 4, 7] if not thorough else [1, 2, 3, 4, 5, 7, 10]
    days_values = [2, 3, 14] if not thorough else [1, 2, 3, 14, 30]
    offsets_l, offsets_h = set(), set()
    n_cfg = 0
    try:
        plans = [(N, False) for N in vers_values] + [(5, True)]
        for vi, (N, wildcard) in enumerate(plans):
            how = hows[vi % 3]
            nl = 1 + vi % 3
            hosts = ["127.0.0.1", "localhost", "::1"]
            listen = []
            for i in range(nl):
                h = hosts[(vi + i) % 3]
                listen.append((h, free_port("::1" if h == "::1" else "127.0.0.1")))
            if wildcard:
                # an IPv4 wildcard and an IPv6 literal on the SAME port: two addresses, both must serve
                pw = free_port("127.0.0.1")
                listen = [("0.0.0.0", pw), ("::1", pw)]
            allow_mode = vi % 3   # none / one / many
            me = str(uuid.UUID(int=rnd.getrandbits(128), version=4))
            others = [str(uuid.UUID(int=rnd.getrandbits(128), version=4)) for _ in range(9)]
            me2 = str(uuid.UUID(int=rnd.getrandbits(128), version=4))
            allow = None if allow_mode == 0 else ([me] if allow_mode == 1 else others[:4] + [me, me2] + others[4:8])
            outsider = others[8]
            D = days_values[vi % len(days_values)]
            ddir = os.path.join(base, "d%d" % vi)
            os.makedirs(ddir)
            cwd = os.path.join(base, "cwd%d" % vi)
            os.makedirs(cwd)
            cfg = {"listen": listen, "data_dir": ddir, "allow": allow, "versions": N, "days": D, "cwd": cwd}
            n_cfg += 1
            pr, err = None, None
            for attempt in range(4):
                try:
                    pr = Proc(cfg, how)
                    break
                except RuntimeError as e:
                    # a port can be taken between probing and binding: new ports, try again
                    err = str(e)
                    if wildcard:
                        pw = free_port("127.0.0.1")
                        listen = [("0.0.0.0", pw), ("::1", pw)]
                    else:
                        listen = [(h, free_port("::1" if h == "::1" else "127.0.0.1")) for h, _ in listen]
                    cfg["listen"] = listen
            if pr is None:
                viol("the server does not start with this configuration (4 attempts, fresh ports each): " + err, None)
                continue
            trace = ["start: " + pr.cmdline]
            try:
                cases += 1
                # (1) every listen address serves
                acked = []   # (parent, version, body)
                parent = NIL
                for ai, addr in enumerate(listen):
                    try:
                        st, hd, _ = add_version(addr, me, parent, b"body-%d" % ai)
                        requests[0] += 1
                    except OSError as e:
                        viol("configured listen address %s:%d does not serve: %s" % (addr[0], addr[1], e), pr, trace)
                        continue
                    if st != 200 or "x-version-id" not in hd:
                        viol("AddVersion on listen address %s:%d answered %d" % (addr[0], addr[1], st), pr, trace)
                        continue
                    acked.append((parent, hd["x-version-id"], b"body-%d" % ai))
                    parent = hd["x-version-id"]
                addr = listen[0]
                # (2) the allow-list is exactly the configured one
                st, _, _ = add_version(addr, outsider, NIL, b"x")
                requests[0] += 1
                if allow is None and st != 200:
                    viol("no allow-list configured, yet client %s is answered %d" % (outsider, st), pr, trace)
                if allow is not None and st != 403:
                    viol("client %s is not on the configured allow-list, yet is answered %d (expected 403)" % (outsider, st), pr, trace)
                if allow is not None:
                    for c in allow:
                        st, _, _ = req(addr, "GET", "/v1/client/get-child-version/" + NIL, c)
                        requests[0] += 1
                        if st == 403:
                            viol("client %s is on the configured allow-list, yet is answered 403" % c, pr, trace)
                # (3) the data is kept in the configured directory
                have_db = any(f.endswith(".sqlite3") for f in os.listdir(ddir))
                if not have_db:
                    viol("no database file in the configured data directory %s (found %s; the process's working directory now holds %s)" % (ddir, os.listdir(ddir), os.listdir(cwd)), pr, trace)
                # (3b) a second client whose chain starts from a NON-NIL base and whose snapshot sits at that base (an id that is no
                # stored version): what it is served now is what it must be served after every restart
                base2, snap2, first2 = str(uuid.UUID(int=rnd.getrandbits(128), version=4)), None, None
                if allow is None or me2 in allow:
                    st, hd, _ = add_version(addr, me2, base2, b"on-a-foreign-base")
                    requests[0] += 1
                    if st == 200:
                        first2 = hd.get("x-version-id")
                        req(addr, "POST", "/v1/client/add-snapshot/" + base2, me2, b"snapshot-at-the-base", SN)
                        st, hd, data = req(addr, "GET", "/v1/client/snapshot", me2)
                        requests[0] += 2
                        if st == 200:
                            snap2 = (hd.get("x-version-id"), data)
                # (4) snapshot-versions target: snapshot at the latest version, then count
                st, _, _ = req(addr, "POST", "/v1/client/add-snapshot/" + parent, me, b"snap", SN)
                requests[0] += 1
                if st != 200:
                    viol("AddSnapshot for the latest version answered %d" % st, pr, trace)
                first = {"low": None, "high": None}
                seq = []
                for k in range(1, N * 3 // 2 + 4):
                    st, hd, _ = add_version(addr, me, parent, b"v%d" % k)
                    requests[0] += 1
                    if st != 200:
                        viol("AddVersion #%d after the snapshot answered %d" % (k, st), pr, trace)
                        break
                    acked.append((parent, hd["x-version-id"], b"v%d" % k))
                    parent = hd["x-version-id"]
                    u = urgency(hd)
                    seq.append(u)
                    if u in ("low", "high") and first["low"] is None:
                        first["low"] = k
                    if u == "high" and first["high"] is None:
                        first["high"] = k
                trace.append("urgency of the k-th AddVersion after a snapshot of the latest version, k=1..: " + " ".join(seq))
                # "low when [the count] has reached its target, high when one and a half times": the k-th AddVersion is preceded by k-1
                # accepted versions since the snapshot (reading A) or makes it k (reading B)
                if first["low"] is None or first["low"] - N not in (0, 1):
                    viol("snapshot-versions=%d configured, but the first snapshot request appears at AddVersion #%s after the snapshot (expected #%d or #%d)" % (N, first["low"], N, N + 1), pr, trace)
                else:
                    offsets_l.add(first["low"] - N)
                # high from floor(3N/2) (the integer reading of "one and a half times" used throughout, DESIGN.md 5.C12), counted
                # the same way as the low threshold just observed
                if first["low"] is not None and first["low"] - N in (0, 1):
                    exp_h = N * 3 // 2 + (first["low"] - N)
                    if first["high"] != exp_h:
                        viol("snapshot-versions=%d configured (first snapshot request at AddVersion #%d), but urgency=high first appears at AddVersion #%s after the snapshot (expected #%d)" % (N, first["low"], first["high"], exp_h), pr, trace)
                if any(u not in ("none", "low", "high") for u in seq) or seq != sorted(seq, key=["none", "low", "high"].index):
                    viol("urgency sequence is not monotone none->low->high: %s" % seq, pr, trace)
                # (5) kill -9, restart on the same directory (other way of giving the configuration): same history
                pr.kill()
                # (6) snapshot-days target: fresh snapshot, age it in the database, restart
                # thresholds as in C12 with the integer reading used throughout (DESIGN.md 5.C12): low from D days, high from floor(3D/2) days
                urg_days = lambda d: "high" if d >= D * 3 // 2 else ("low" if d >= D else "none")
                def restart(how2):
                    last = None
                    for attempt in range(3):
                        try:
                            return Proc(dict(cfg, versions=1000000), how2)
                        except RuntimeError as e:
                            last = str(e)
                            time.sleep(0.3)
                    viol("after kill -9 the server does not start again on the same data directory and addresses (3 attempts): " + (last or ""), None, trace)
                    return None
                for d_age, expect in [(d, urg_days(d)) for d in (D - 1, D, -(-D * 3 // 2) + 1)] if have_db else ():
                    pr2 = restart(hows[(vi + 1) % 3])
                    if pr2 is None:
                        break
                    try:
                        st, _, _ = req(addr, "POST", "/v1/client/add-snapshot/" + parent, me, b"snap2", SN)
                        requests[0] += 1
                    finally:
                        pr2.kill()
                    dbf = [f for f in os.listdir(ddir) if f.endswith(".sqlite3")]
                    con = sqlite3.connect(os.path.join(ddir, dbf[0]))
                    con.execute("UPDATE clients SET snapshot_timestamp = ? WHERE client_id = ?", (int(time.time()) - d_age * 86400 - 120, me))
                    con.commit()
                    changed = con.total_changes
                    con.close()
                    pr2 = restart(hows[(vi + 2) % 3])
                    if pr2 is None:
                        break
                    trace2 = trace + ["restart: " + pr2.cmdline, "snapshot aged to %d days" % d_age]
                    try:
                        cases += 1
                        if changed != 1:
                            if violations:
                                break   # the snapshot was never stored because of what has been reported already
                            raise Skip("could not age the snapshot row (schema differs from the pinned tree's)")
                        st, hd, _ = add_version(addr, me, parent, b"aged%d" % d_age)
                        requests[0] += 1
                        if st != 200:
                            viol("AddVersion after restart answered %d" % st, pr2, trace2)
                        else:
                            acked.append((parent, hd["x-version-id"], b"aged%d" % d_age))
                            parent = hd["x-version-id"]
                            if urgency(hd) != expect:
                                viol("snapshot-days=%d configured and the snapshot is %d days old, but AddVersion reports urgency %s (expected %s)" % (D, d_age, urgency(hd), expect), pr2, trace2)
                        if first2 is not None:
                            st, hd, data = req(addr, "GET", "/v1/client/get-child-version/" + base2, me2)
                            requests[0] += 1
                            if st != 200 or hd.get("x-version-id") != first2 or data != b"on-a-foreign-base":
                                viol("after kill -9 and restart, the first version of the client whose chain starts at the non-nil base %s is answered %d" % (base2, st), pr2, trace2)
                        if snap2 is not None:
                            st, hd, data = req(addr, "GET", "/v1/client/snapshot", me2)
                            requests[0] += 1
                            if st != 200 or (hd.get("x-version-id"), data) != snap2:
                                viol("before the restart GetSnapshot of client %s answered the snapshot at %s (%d bytes); after kill -9 and restart on the same data directory it answers %d %s" % (me2, snap2[0], len(snap2[1]), st, hd.get("x-version-id")), pr2, trace2)
                        # the whole acknowledged history is served after the kills and restarts
                        for (par, ver, body) in acked:
                            st, hd, data = req(addr, "GET", "/v1/client/get-child-version/" + par, me)
                            requests[0] += 1
                            if st != 200 or hd.get("x-version-id") != ver or data != body:
                                viol("after kill -9 and restart on the same data directory, acknowledged version %s (child of %s) is answered %d %s" % (ver, par, st, hd.get("x-version-id")), pr2, trace2)
                                break
                    finally:
                        pr2.kill()
                if len(samples) < 2:
                    samples.append(trace)
            finally:
                pr.kill()
        # ---- (A) all configured listen addresses or none: one of two addresses cannot be bound (this leg holds the port).  The
        # unchanged server refuses to start; a server that RUNS and answers on the other address serves a strict subset of
        # what the operator configured
        class _P:  # what viol() prints
            def __init__(self, c): self.cmdline = c
        def env0():
            e = {k: v for k, v in os.environ.items() if k not in ("LISTEN", "DATA_DIR", "CLIENT_ID", "SNAPSHOT_VERSIONS", "SNAPSHOT_DAYS")}
            e["RUST_LOG"] = "error"
            return e
        for taken_first in ([False, True] if thorough else [False]):
            blocker = socket.socket(socket.AF_INET, socket.SOCK_STREAM)
            blocker.bind(("127.0.0.1", 0))
            blocker.listen(1)
            p_taken = blocker.getsockname()[1]
            p_free = free_port("127.0.0.1")
            addrs = ["127.0.0.1:%d" % p_taken, "127.0.0.1:%d" % p_free] if taken_first else ["127.0.0.1:%d" % p_free, "127.0.0.1:%d" % p_taken]
            dd = os.path.join(base, "subset%d" % int(taken_first))
            os.makedirs(dd)
            args = [BIN, "--data-dir", dd] + sum([["--listen", a] for a in addrs], [])
            cl = " ".join(args[1:]) + "   (port %d is held by another process)" % p_taken
            n_cfg += 1
            cases += 1
            sp = subprocess.Popen(args, env=env0(), stdout=subprocess.DEVNULL, stderr=subprocess.DEVNULL)
            try:
                t0 = time.time()
                answered = None
                while time.time() - t0 < 4 and sp.poll() is None:
                    try:
                        st, _, _ = req(("127.0.0.1", p_free), "GET", "/v1/client/get-child-version/" + NIL, str(uuid.UUID(int=rnd.getrandbits(128), version=4)))
                        requests[0] += 1
                        answered = st
                        break
                    except OSError:
                        time.sleep(0.1)
                if answered is not None and sp.poll() is None:
                    viol("two listen addresses configured, one of them cannot be bound (held by another process): the server RUNS and answers on %s only (status %d) instead of refusing to start - it serves a strict subset of the configured addresses" % ("127.0.0.1:%d" % p_free, answered), _P(cl), ["start: " + cl])
            finally:
                if sp.poll() is None:
                    sp.send_signal(signal.SIGKILL)
                    sp.wait()
                blocker.close()
        # ---- (B) a data directory whose name is not valid UTF-8 (legal on this platform), by flag and by environment variable:
        # the database must be in exactly that directory
        for how_b in (["flag", "env"] if thorough else ["flag" if seed % 2 else "env"]):
            bdir = os.path.join(os.fsencode(base), b"dat\xe9-" + how_b.encode())
            os.makedirs(bdir)
            pb = free_port("127.0.0.1")
            argsb = [os.fsencode(BIN), b"--listen", b"127.0.0.1:%d" % pb]
            envb = {os.fsencode(k): os.fsencode(v) for k, v in env0().items()}
            if how_b == "flag":
                argsb += [b"--data-dir", bdir]
            else:
                envb[b"DATA_DIR"] = bdir
            clb = "%s data directory %r, --listen 127.0.0.1:%d" % (how_b, bdir, pb)
            n_cfg += 1
            cases += 1
            sp = subprocess.Popen(argsb, env=envb, stdout=subprocess.DEVNULL, stderr=subprocess.PIPE)
            try:
                t0 = time.time()
                up = False
                while time.time() - t0 < 15 and sp.poll() is None:
                    try:
                        st, hd, _ = add_version(("127.0.0.1", pb), str(uuid.UUID(int=rnd.getrandbits(128), version=4)), NIL, b"in-a-non-utf8-directory")
                        requests[0] += 1
                        up = True
                        break
                    except OSError:
                        time.sleep(0.05)
                if not up:
                    # refusing such a directory outright is not what the unchanged server does, but it is not silently using ANOTHER one either
                    msg = sp.stderr.read().decode(errors="replace")[-300:] if sp.poll() is not None else "no answer within 15 s"
                    viol("the server does not serve with a data directory whose name is not valid UTF-8: " + msg, _P(clb), ["start: " + clb])
                else:
                    found = [f for f in os.listdir(bdir) if f.endswith(b".sqlite3")]
                    if st != 200 or not found:
                        sibl = [f for f in os.listdir(os.fsencode(base)) if f.startswith(b"dat")]
                        viol("AddVersion answered %d and the configured data directory %r holds %r: the data is kept somewhere else (siblings now: %r)" % (st, bdir, os.listdir(bdir), sibl), _P(clb), ["start: " + clb])
            finally:
                if sp.poll() is None:
                    sp.send_signal(signal.SIGKILL)
                    sp.wait()
                try:
                    sp.stderr.close()
                except Exception:
                    pass
        if len(offsets_l) > 1:
            viol("the count at which the first snapshot request appears is not the same function of the configured target for every configuration (offsets %s)" % sorted(offsets_l), None)
    finally:
        shutil.rmtree(base, ignore_errors=True)
    return {"leg": "process", "cases": cases, "configurations": n_cfg, "requests": requests[0], "violations": violations, "samples": samples,
            "bound": "%d configurations of the real executable (1-3 listen addresses on 127.0.0.1 / localhost / ::1, one configuration with 0.0.0.0 and ::1 on the same port; allow-list none/one/many; snapshot-versions in %s; snapshot-days in %s; each given by flag, by environment variable, or mixed), each with a kill -9 and 6 restarts on the same data directory; plus: two listen addresses of which one is held by another process (all or nothing), and a data directory whose name is not valid UTF-8 (by flag / by environment variable)" % (n_cfg, vers_values, days_values)}


if __name__ == "__main__":
    import sys
    print(json.dumps(run("--thorough" in sys.argv, 1), indent=1))
