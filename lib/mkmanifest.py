"""Regenerate MANIFEST.json from lib/legs.py (claimed properties) and the fixed not-applicable list."""
import json, os, sys
sys.path.insert(0, os.path.dirname(os.path.abspath(__file__)))
import legs
VERIF = os.path.dirname(os.path.dirname(os.path.abspath(__file__)))
props = [json.loads(l) for l in open(os.path.join(VERIF, "properties.jsonl"))]
NA = json.load(open(os.path.join(VERIF, "lib", "not_applicable.json")))
LEVEL_TEXT = json.load(open(os.path.join(VERIF, "lib", "levels.json")))
checks = []
na = []
for p in props:
    pid = p["id"]
    if pid in legs.PROP_CFG and pid in LEVEL_TEXT:
        c = legs.PROP_CFG[pid]
        lt = LEVEL_TEXT[pid]
        checks.append({
            "property_id": pid,
            "quick_cmd": "./verif check %s --tier quick" % pid,
            "thorough_cmd": "./verif check %s --tier thorough" % pid,
            "evidence_file": "/verif/evidence/%s.json" % pid,
            "replay_cmd_template": "./verif replay {path}",
            "engine": "verus-contracts",
            "level_claimed": {"category": c["level"], "text": lt["text"], "design_ref": lt.get("design_ref", "DESIGN.md section 5")},
            "level_note": lt["note"],
            "technique": lt["technique"],
        })
    else:
        na.append({"property_id": pid, "reason": NA.get(pid, "check not built yet (build in progress)")})
m = {
    "version": 1,
    "setup_cmd": "cd /verif && CARGO_NET_OFFLINE=true CARGO_TARGET_DIR=/verif/target cargo build --manifest-path extractor/Cargo.toml --offline --release && ./setup_extra.sh",
    "hooks": {"guard": "tcss_verif", "enable": "none: no hooks are needed in /repo; checks extract the functions from /repo's working tree on every run (private functions are reached by extraction / by appending harness text to a scratch copy)",
              "baseline_off_cmd": "cd /repo && cargo test --workspace --no-fail-fast --offline", "source_commits": [], "add_only": True},
    "engines": [{"name": "verus-contracts", "path": "/verif/verif", "serves_properties": [c["property_id"] for c in checks],
                 "kind_free_text": "contract-based deductive verification: real functions extracted mechanically from /repo every run (extractor/), contracts in contracts/*.vspec, discharged by Verus/Z3; Kani/CBMC for full-domain arithmetic; bounded executable-contract conformance for the SQLite backend (labelled bounded)"}],
    "checks": checks,
    "notes": "See DESIGN.md. Exit codes of ./verif check: 0 held, 1 violation (VIOLATION line), 2 inconclusive (extraction anchor lost / unsupported construct / solver limit: never reported as a violation).",
    "not_applicable": na,
}
json.dump(m, open(os.path.join(VERIF, "MANIFEST.json"), "w"), indent=1)
print("checks:", [c["property_id"] for c in checks], "not_applicable:", [n["property_id"] for n in na])
