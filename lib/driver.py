"""Driver: decide properties from the obligations of the generated Verus units (DESIGN.md section 6)."""
import glob, hashlib, json, os, re, subprocess, sys, time

sys.path.insert(0, os.path.dirname(os.path.abspath(__file__)))
import vrun
from vrun import VERIF, REPO, GEN, Inconclusive

CACHE = os.path.join(GEN, "cache")
TAG_RE = re.compile(r"\[([A-Za-z0-9_.\-]+)((?:\s+C\d{2,3})+)\]")
MARK_RE = re.compile(r"//\s*\[([A-Za-z0-9_.\-]+)((?:\s+C\d{2,3})*)\]")
TRUST_PATTERNS = [
    ("assume", re.compile(r"\bassume\s*\(")),
    ("admit", re.compile(r"\badmit\s*\(")),
    ("external_body", re.compile(r"verifier::external_body")),
    ("external", re.compile(r"verifier::external\b(?!_body)")),
    ("assume_specification", re.compile(r"\bassume_specification\b")),
    ("no_decreases", re.compile(r"exec_allows_no_decreases_clause")),
    ("uninterp", re.compile(r"\buninterp\s+spec\s+fn\b")),
    ("axiom", re.compile(r"\baxiom\s+fn\b")),
]


def sha(b):
    if isinstance(b, str):
        b = b.encode()
    return hashlib.sha256(b).hexdigest()


def all_units():
    return sorted(os.path.basename(p)[:-6] for p in glob.glob(os.path.join(VERIF, "contracts", "*.vspec")))


def unit_texts(unit):
    """the vspec text plus the text of every file it includes"""
    p = os.path.join(VERIF, "contracts", unit + ".vspec")
    t = open(p).read()
    out = [t]
    for m in re.finditer(r"^//@ include (\S+)", t, re.M):
        out.append(open(os.path.join(VERIF, m.group(1))).read())
    return "\n".join(out)


def units_for(prop):
    us = []
    for u in all_units():
        txt = unit_texts(u)
        for m in TAG_RE.finditer(txt):
            if prop in m.group(2).split():
                us.append(u)
                break
    return us


# ---------------------------------------------------------------------------------------------
def fidelity(res):
    """Re-assemble every extracted item from its segments and compare with /repo's bytes (DESIGN 3.2)."""
    gm = res["gm"]
    report = []
    for it in gm.items:
        src = gm.src(it["file"])
        s0, s1 = it["src"]
        pos = s0
        verb = drop = ins = 0
        for seg in it["segments"]:
            if seg["k"] == "verbatim":
                a, b = seg["src"]
                g0, g1 = seg["gen"]
                if a != pos:
                    raise Inconclusive("fidelity: gap in %s at %d" % (it["path"], pos))
                if gm.bytes[g0:g1] != src[a:b]:
                    raise Inconclusive("fidelity: generated text differs from source in %s" % it["path"])
                pos = b
                verb += b - a
            elif seg["k"] == "dropped":
                a, b = seg["src"]
                if a != pos:
                    raise Inconclusive("fidelity: gap in %s at %d" % (it["path"], pos))
                txt = src[a:b].decode()
                rule = seg["rule"]
                ok = {
                    "E3": lambda t: t == "?",
                    "E4": lambda t: t.strip().startswith("log::"),
                    "E5": lambda t: re.match(r"\s*(anyhow::)?(anyhow|bail)!|\s*format!|\s*panic!", t) is not None,
                    "E6": lambda t: t.strip().startswith("#[") or t.strip().startswith("///") or t.strip().startswith("//!") or t.strip() == "",
                    "E7": lambda t: t.strip() in ("=", ";", "= "),
                    "E8": lambda t: t.strip().startswith("|"),
                    "E9": lambda t: re.match(r"\s*let mut txn = self\.storage\.txn\([A-Za-z_0-9]+\)\?;\s*$", t) is not None,
                    "E11": lambda t: True,
                    "STUB": lambda t: True,
                    "E14": lambda t: re.match(r"pub(\((crate|super)\))?$", t.strip()) is not None,
                    "E12": lambda t: t.strip().startswith("("),
                    "E16": lambda t: re.match(r"(rusqlite::)?params!\s*[\[({]$", t.strip()) is not None or t.strip() in ("]", ")", "}"),
                }.get(rule, lambda t: False)(txt)
                if not ok:
                    raise Inconclusive("fidelity: rule %s dropped unexpected text %r in %s" % (rule, txt[:60], it["path"]))
                pos = b
                drop += b - a
            else:
                ins += seg["gen"][1] - seg["gen"][0]
        if pos != s1:
            raise Inconclusive("fidelity: item %s not fully covered" % it["path"])
        report.append({"path": it["path"], "file": it["file"], "line": it.get("src_line"), "sha256": sha(src[s0:s1]),
                       "bytes_verbatim": verb, "bytes_dropped": drop, "bytes_inserted": ins, "rules": it.get("rules", []),
                       "kind": it["kind"]})
    return report


def trait_signature_check():
    """contracts/storage_trait.rs restates the two traits of core/src/storage.rs: the method signatures must agree."""
    src = open(os.path.join(REPO, "core/src/storage.rs")).read()
    spec = open(os.path.join(VERIF, "contracts/storage_trait.rs")).read()

    def sigs(t, named_ret):
        t = re.sub(r"//[^\n]*", "", t)
        out = {}
        for m in re.finditer(r"\bfn\s+(\w+)\s*(\([^;{]*?)\s*(?:;|requires|ensures)", t, re.S):
            name, rest = m.group(1), m.group(2)
            rest = re.sub(r"\s+", "", rest)
            rest = rest.replace(",)", ")")
            if named_ret:
                rest = re.sub(r"->\(r:(.*)\)$", r"->\1", rest)
            # parameter NAMES of a trait declaration are immaterial: compare types only
            rest = re.sub(r"([(,])(mut)?[A-Za-z_][A-Za-z_0-9]*:", r"\1", rest)
            out[name] = rest
        return out

    a = sigs(src[src.index("pub trait StorageTxn"):], False)
    b = sigs(spec, True)
    b.pop("view", None)
    b.pop("may_open", None)
    b.pop("inv", None)
    if a != b:
        diff = {k: (a.get(k), b.get(k)) for k in set(a) | set(b) if a.get(k) != b.get(k)}
        raise Inconclusive("storage trait signatures in /repo differ from contracts/storage_trait.rs: %r" % diff)
    return sorted(a)


def trust_scan(unit, gen_text, mp=None):
    found = []
    lines = gen_text.splitlines()
    skip = set()
    if mp is not None:
        # a function stubbed on this tree (outside the verifier's reach) is reported as UNDECIDED, not as trusted base
        for it in mp.get("items", []):
            if it.get("stubbed") and it.get("gen_lines"):
                for ln in range(it["gen_lines"][0] - 1, it["gen_lines"][1] + 1):
                    skip.add(ln)
    for i, line in enumerate(lines):
        if i in skip:
            continue
        code = line.split("//")[0]
        for kind, rx in TRUST_PATTERNS:
            if rx.search(code):
                text = code.strip()
                if text.startswith("#[") and text.endswith("]"):
                    # attribute line: name the item it is attached to
                    for k in range(i + 1, min(i + 4, len(lines))):
                        nxt = lines[k].split("//")[0].strip()
                        if nxt and not nxt.startswith("#["):
                            text += " " + nxt
                            break
                found.append({"kind": kind, "text": re.sub(r"\s+", " ", text)[:200]})
    return found


def check_trust(unit, found, allow_gone=False):
    base_p = os.path.join(VERIF, "trusted_base.json")
    base = json.load(open(base_p)) if os.path.exists(base_p) else {}
    want = base.get(unit)
    got = sorted(set((f["kind"], f["text"]) for f in found))
    if want is None:
        raise Inconclusive("trust scan: no committed trusted-base list for unit %s (run `./verif baseline`)" % unit)
    want = sorted(set((w["kind"], w["text"]) for w in want))
    if got != want:
        extra = [g for g in got if g not in want]
        missing = [w for w in want if w not in got]
        if allow_gone and not extra:
            # entries that lived in a function stubbed on this tree are absent: that is not a new assumption
            return [{"kind": k, "text": t} for k, t in got]
        raise Inconclusive("trust scan: trusted base of unit %s differs from the committed list (new: %r, gone: %r)" % (unit, extra[:3], missing[:3]))
    return [{"kind": k, "text": t} for k, t in got]


# ---------------------------------------------------------------------------------------------
def _run_once(unit):
    gen_path, mp = vrun.extract(unit)
    text = open(gen_path).read()
    key = sha(text + "|verus-0.2026.09.13")
    os.makedirs(CACHE, exist_ok=True)
    cp = os.path.join(CACHE, "%s-%s.json" % (unit, key[:24]))
    res = None
    if os.path.exists(cp) and not os.environ.get("VERIF_NOCACHE"):
        try:
            saved = json.load(open(cp))
            gm = vrun.GenMap(gen_path, mp)
            saved["gm"] = gm
            saved["map"] = mp
            saved["cached"] = True
            res = saved
        except Exception:
            res = None
    if res is None:
        res = vrun.run_verus(unit)
        res["cached"] = False
        dump = {k: v for k, v in res.items() if k not in ("gm", "map")}
        json.dump(dump, open(cp, "w"))
    res["gen_text"] = text
    res["gen_sha"] = key
    return res


def run_unit(unit):
    """extract + verify one unit (verus result cached on the generated text), returns an analysed result.
    A function whose body does not compile under Verus on this tree (construct outside the stand-ins, helper that is not
    extracted, ...) is stubbed and the unit re-run: only that function's obligations become undecided."""
    stubs = []
    reasons = {}
    os.environ.pop("TCSS_STUB", None)
    try:
        for _round in range(5):
            if stubs:
                os.environ["TCSS_STUB"] = ",".join(stubs)
            res = _run_once(unit)
            hard = [d for d in res["diags"] if not d["semantic"]]
            if not hard:
                break
            new = []
            for d in hard:
                if d.get("fn") and d.get("file"):
                    k = "%s#%s" % (d["file"], d["fn"])
                    if k not in stubs and k not in new:
                        new.append(k)
                        reasons[d["fn"]] = "does not compile under Verus: " + d["message"][:200]
                else:
                    new = None
                    break
            if not new:
                break   # cannot be attributed to extracted functions: the whole unit is inconclusive (analyse raises)
            stubs += new
        res["stubbed_by_driver"] = list(stubs)
        out = analyse(unit, res)
        for o in out["obligations"]:
            if o["status"] == "undecided" and o["fn"] in reasons:
                o["undecided_reason"] = reasons[o["fn"]]
        return out
    finally:
        os.environ.pop("TCSS_STUB", None)


def fn_breakdown(res):
    out = {}
    j = res.get("json") or {}
    smt = (j.get("times-ms") or {}).get("smt") or {}
    for m in smt.get("smt-run-module-times", []):
        for f in m.get("function-breakdown", []):
            name = f["function"].split("::", 1)[1] if "::" in f["function"] else f["function"]
            out[name] = {"time_us": f.get("time-micros", 0), "rlimit": f.get("rlimit", 0), "success": f.get("success", False), "mode": f.get("mode:")}
    return out


def include_marker(gm, d):
    """a diagnostic whose callee clause lies in an included file: look for a `// [id tags]` marker on the clause's lines"""
    lines = gm.text.splitlines()
    for lab, ln in d.get("labels", []):
        if lab and "failed pre" in lab:
            for k in range(ln - 1, min(ln + 12, len(lines))):
                m = MARK_RE.search(lines[k])
                if m:
                    return m.group(1), m.group(2).split()
                if lines[k].rstrip().endswith(","):
                    break
    return None, None


def analyse(unit, res):
    gm = res["gm"]
    mp = res["map"]
    fb = fn_breakdown(res)
    hard = [d for d in res["diags"] if not d["semantic"]]
    if hard:
        raise Inconclusive("unit %s does not compile under Verus (not a semantic failure): %s" % (unit, "; ".join(sorted(set(d["message"][:120] for d in hard))[:3])))
    j = res.get("json") or {}
    vr = j.get("verification-results") or {}
    if not vr:
        raise Inconclusive("unit %s: verus produced no result (%s)" % (unit, res.get("stderr_tail", "")[-300:]))
    if vr.get("encountered-vir-error"):
        raise Inconclusive("unit %s: verus reported a VIR error" % unit)
    # resource-limit style failures are inconclusive, not violations
    for d in res["diags"]:
        if "rlimit" in d["message"] or "timed out" in d["message"] or "resource limit" in d["message"].lower():
            raise Inconclusive("unit %s: solver resource limit (%s)" % (unit, d["message"][:80]))
    obligations = []
    # clauses
    for it in mp["items"]:
        if it["kind"] not in ("fn", "item"):
            continue
        fn_tags = set()
        for c in it.get("clauses", []):
            fn_tags.update(c["tags"])
        named_fail = {}
        unattributed = []
        for d in res["diags"]:
            if d.get("fn") != it["path"] or d.get("file") != it["file"]:
                continue
            if d.get("clause"):
                named_fail.setdefault(d["clause"], []).append(d)
            else:
                mid, mtags = include_marker(gm, d)
                if mid:
                    d["clause"] = mid
                    d["clause_tags"] = mtags
                    d["marker"] = True
                unattributed.append(d)
        fname = it["path"]
        if it.get("stubbed"):
            for c in it.get("clauses", []):
                if c["kind"] in ("requires", "closure_requires", "nested_requires", "ghost"):
                    continue
                obligations.append({"unit": unit, "id": c["id"], "tags": c["tags"], "kind": c["kind"], "fn": fname, "file": it["file"], "place": c["place"], "counted": True,
                                    "status": "undecided", "diags": [], "text": c["text"][:300], "backend": "verus-z3", "solver_us": None, "rlimit": None,
                                    "undecided_reason": it["stubbed"]})
            obligations.append({"unit": unit, "id": "implicit@" + fname, "tags": sorted(fn_tags), "kind": "implicit (overflow, call-site preconditions, termination)", "fn": fname, "file": it["file"],
                                "place": "body", "counted": True, "status": "undecided", "diags": [], "text": "body not verified on this tree", "backend": "verus-z3", "solver_us": None, "rlimit": None,
                                "undecided_reason": it["stubbed"]})
            continue
        fstat = fb.get(fname) or fb.get(fname.split("::")[-1]) or {}
        # a closure without a contract in the sidecar has an UNKNOWN result for Verus: a failure in such a function
        # may be nothing but that lack of knowledge
        unmodelled = it.get("closures_total", 0) > it.get("closures_with_contract", 0)
        for c in it.get("clauses", []):
            if c["kind"] in ("requires", "closure_requires"):
                kind = "precondition (assumed here, checked at call sites)"
                counted = False
            elif c["kind"] == "ghost":
                continue
            else:
                kind = c["kind"]
                counted = True
            if c.get("skipped"):
                # `closure k optional` whose closure is gone on this tree: the clause cannot be stated, it is UNDECIDED (never discharged)
                obligations.append({"unit": unit, "id": c["id"], "tags": c["tags"], "kind": kind, "fn": fname, "file": it["file"], "place": c["place"], "counted": counted,
                                    "status": "undecided", "diags": [], "text": c["text"][:300], "backend": "verus-z3", "solver_us": None, "rlimit": None,
                                    "undecided_reason": c["skipped"]})
                continue
            fails = named_fail.get(c["id"], [])
            obligations.append({"unit": unit, "id": c["id"], "tags": c["tags"], "kind": kind, "fn": fname, "file": it["file"], "place": c["place"], "unmodelled_closure": unmodelled,
                                "counted": counted, "status": "failed" if fails else "discharged", "diags": fails, "text": c["text"][:300],
                                "backend": "verus-z3", "solver_us": fstat.get("time_us"), "rlimit": fstat.get("rlimit")})
        if it["kind"] == "fn":
            # implicit obligations of the function: arithmetic overflow, call-site preconditions, termination
            by_marker = {}
            rest = []
            for d in unattributed:
                if d.get("marker"):
                    by_marker.setdefault(d["clause"], []).append(d)
                else:
                    rest.append(d)
            for mid, ds in by_marker.items():
                obligations.append({"unit": unit, "id": mid + "@" + fname, "tags": ds[0]["clause_tags"] or sorted(fn_tags), "kind": "call-site precondition", "fn": fname, "file": it["file"],
                                    "place": "call site", "counted": True, "status": "failed", "diags": ds, "text": mid, "backend": "verus-z3",
                                    "solver_us": fstat.get("time_us"), "rlimit": fstat.get("rlimit")})
            obligations.append({"unit": unit, "id": "implicit@" + fname, "tags": sorted(fn_tags), "kind": "implicit (overflow, call-site preconditions, termination)", "fn": fname, "unmodelled_closure": unmodelled,
                                "file": it["file"], "place": "body", "counted": True, "status": "failed" if rest else "discharged", "diags": rest,
                                "text": "every arithmetic operation, array access and call-site precondition in the body", "backend": "verus-z3",
                                "solver_us": fstat.get("time_us"), "rlimit": fstat.get("rlimit")})
    # call-site preconditions declared with `// [id tags]` markers (trait contracts, stand-ins): one obligation per marker,
    # standing for every call site in this unit
    failing_markers = set()
    for o in obligations:
        if o["kind"] == "call-site precondition":
            failing_markers.add(o["id"].split("@")[0])
    seen_markers = set()
    for m in MARK_RE.finditer(res["gen_text"]):
        mid, mtags = m.group(1), m.group(2).split()
        if mid in seen_markers or not mtags:
            continue
        seen_markers.add(mid)
        if mid in failing_markers:
            continue
        obligations.append({"unit": unit, "id": mid, "tags": mtags, "kind": "call-site precondition (every call site in this unit)", "fn": "(callers)", "file": "(contract)", "place": "call sites",
                            "counted": True, "status": "discharged", "diags": [], "text": res["gen_text"][max(0, m.start() - 160):m.start()].strip().splitlines()[-1].strip() if m.start() > 0 else mid,
                            "backend": "verus-z3", "solver_us": None, "rlimit": None})
    # lemmas (pure proof fns marked in the vspec)
    lemma_fail_lines = []
    for d in res["diags"]:
        if d.get("fn") is None:
            lemma_fail_lines.append(d)
    lines = res["gen_text"].splitlines()
    for lm in mp.get("lemmas", []):
        # the proof fn that follows the marker
        name = None
        for k in range(lm["gen_line"] - 1, min(lm["gen_line"] + 6, len(lines))):
            m = re.search(r"proof\s+fn\s+(\w+)", lines[k])
            if m:
                name = m.group(1)
                start = k + 1
                break
        if name is None:
            raise Inconclusive("unit %s: lemma marker %s is not followed by a proof fn" % (unit, lm["id"]))
        st = fb.get(name, {})
        # find failing diags inside the lemma: by function-breakdown success flag
        ok = st.get("success", False)
        ds = []
        if not ok:
            for d in lemma_fail_lines:
                ds.append(d)
        obligations.append({"unit": unit, "id": lm["id"], "tags": lm["tags"], "kind": "lemma", "fn": name, "file": "(pure lemma, no repository code)", "place": "lemma",
                            "counted": True, "status": "discharged" if ok else "failed", "diags": ds, "text": "proof fn " + name, "backend": "verus-z3",
                            "solver_us": st.get("time_us"), "rlimit": st.get("rlimit")})
    # any diagnostic not attributed to an extracted fn or marked lemma: unmarked helper lemma / spec -> unit-wide failure
    attributed = set()
    for o in obligations:
        for d in o["diags"]:
            attributed.add(id(d))
    stray = [d for d in res["diags"] if id(d) not in attributed]
    res["obligations"] = obligations
    res["stray"] = stray
    res["fn_breakdown"] = fb
    return res


def vacuity_check(unit):
    """DESIGN.md 8: with `false` appended to the postconditions of every contracted function, EVERY such function must
    fail exactly that clause; one that proves `false` has contradictory preconditions or assumptions."""
    res = vrun.run_verus(unit, vacuity=True)
    hard = [d for d in res["diags"] if not d["semantic"]]
    if hard:
        raise Inconclusive("vacuity twin of unit %s does not compile: %s" % (unit, hard[0]["message"][:120]))
    want = []
    for it in res["map"]["items"]:
        if it["kind"] == "fn" and any(c["id"] == "vacuity.false" for c in it.get("clauses", [])):
            want.append(it["path"])
    got = set(d["fn"] for d in res["diags"] if d.get("clause") == "vacuity.false")
    vacuous = [f for f in want if f not in got]
    return {"unit": unit, "functions_checked": len(want), "functions_refuting_false": len(want) - len(vacuous), "vacuous": vacuous, "wall_s": round(res["wall_s"], 1)}


def stability_check(unit, seeds=(11, 23, 47)):
    """thorough tier: the unit must verify identically under other Z3 random seeds (unstable proofs fail for no semantic reason)"""
    gen_path, _ = vrun.extract(unit)
    out = []
    for sd in seeds:
        p = subprocess.run(["verus", os.path.basename(gen_path), "--smt-option", "smt.random_seed=%d" % sd, "--smt-option", "sat.random_seed=%d" % sd],
                           cwd=vrun.GEN, capture_output=True, text=True, timeout=900)
        m = re.search(r"verification results:: (\d+) verified, (\d+) errors", p.stdout + p.stderr)
        out.append({"seed": sd, "verified": int(m.group(1)) if m else None, "errors": int(m.group(2)) if m else None})
    return {"unit": unit, "runs": out, "stable": all(o["errors"] == 0 for o in out) and len(set(o["verified"] for o in out)) == 1}



# ---------------------------------------------------------------------------------------------
# Canaries (thorough tier): one deliberately broken body per unit, on a scratch copy of the sources, must make the
# pipeline report the named obligation.  Guards against a pipeline that passes because it no longer looks (stale
# extractor, lost splice, swallowed diagnostics).  A canary whose source text is no longer there is skipped.
CANARIES = {
    "u1": ("core/src/server.rs", "&& parent_version_id != client.latest_version_id", "&& parent_version_id == client.latest_version_id", "av.accept_iff"),
    "u2": ("core/src/inmemory.rs", "client.latest_version_id = version_id;", "client.latest_version_id = parent_version_id;", "InnerTxn@StorageTxn::add_version"),
    "u3": ("server/src/api/add_version.rs", "let mut rb = HttpResponse::Conflict();", "let mut rb = HttpResponse::Ok();", "enc.av"),
    "u4": ("server/src/bin/taskchampion-sync-server.rs", "snapshot_days: server_args.snapshot_days,", "snapshot_days: 14,", "wire.server"),
    "u5": ("sqlite/src/lib.rs", ".map_err(|_| rusqlite::types::FromSqlError::InvalidType)?;", ".unwrap_or(Uuid::nil());", "enc.id.read"),
    "u6": ("sqlite/src/lib.rs", "snapshot.timestamp.timestamp(),", "snapshot.timestamp.timestamp_millis(),", "enc.snapshot.write"),
}


def canary_check(unit):
    import shutil, tempfile
    if unit not in CANARIES:
        return {"unit": unit, "status": "none defined"}
    f, old, new, expect = CANARIES[unit]
    src = os.path.join(vrun.REPO, f)
    try:
        text = open(src).read()
    except OSError:
        return {"unit": unit, "status": "skipped (source file missing)"}
    if text.count(old) != 1:
        return {"unit": unit, "status": "skipped (the text the canary edits is not in the current tree)"}
    base = "/dev/shm" if os.path.isdir("/dev/shm") else None
    d = tempfile.mkdtemp(prefix="tcss-canary-", dir=base)
    try:
        for sub in ("core/src", "server/src", "sqlite/src"):
            shutil.copytree(os.path.join(vrun.REPO, sub), os.path.join(d, sub))
        open(os.path.join(d, f), "w").write(text.replace(old, new))
        env = dict(os.environ, VERIF_REPO=d, VERIF_GEN=os.path.join(d, "gen"))
        env.pop("TCSS_STUB", None)
        p = subprocess.run([sys.executable, os.path.join(VERIF, "lib", "vrun.py"), unit], capture_output=True, text=True, env=env, timeout=900)
        hit = [l for l in p.stdout.splitlines() if l.startswith("- ") and ("clause=" + expect in l or ("fn=" in l and expect in l))]
        return {"unit": unit, "edit": "%s: `%s` -> `%s`" % (f, old, new), "expected_obligation": expect, "status": "reported" if hit else "NOT REPORTED",
                "output": (hit[0] if hit else p.stdout[-400:])[:400]}
    finally:
        shutil.rmtree(d, ignore_errors=True)


# ---------------------------------------------------------------------------------------------
def load_known():
    p = os.path.join(VERIF, "known_findings.json")
    if os.path.exists(p):
        return json.load(open(p))
    return {"findings": [], "fixed": []}


def baseline_path():
    return os.path.join(VERIF, "obligations.baseline.json")


def load_baseline():
    p = baseline_path()
    return json.load(open(p)) if os.path.exists(p) else {}
