
// ===== appended by /verif (kani leg) to a SCRATCH COPY of core/src/server.rs; never to /repo =====
#[cfg(kani)]
mod verif_kani {
    use super::*;

    fn rank(u: SnapshotUrgency) -> u8 {
        match u {
            SnapshotUrgency::None => 0,
            SnapshotUrgency::Low => 1,
            SnapshotUrgency::High => 2,
        }
    }

    /// C12: for EVERY non-negative target and every age the result equals the widened-arithmetic spec,
    /// and the high threshold is never below the low one.  Loop-free, full domain: a complete proof.
    #[kani::proof]
    fn urgency_days_full_domain() {
        let t: i64 = kani::any();
        let d: i64 = kani::any();
        kani::assume(t >= 0);
        let cfg = ServerConfig { snapshot_days: t, snapshot_versions: 0 };
        let r = SnapshotUrgency::for_days(&cfg, d);
        let high = (t as i128) * 3 / 2;
        let exp = if (d as i128) >= high {
            SnapshotUrgency::High
        } else if d >= t {
            SnapshotUrgency::Low
        } else {
            SnapshotUrgency::None
        };
        assert!(r == exp);
        assert!(high >= t as i128);
    }

    /// no panic / overflow for ANY target of the configured types (negative ones included) and any measure
    #[kani::proof]
    fn urgency_total() {
        let cfg = ServerConfig { snapshot_days: kani::any(), snapshot_versions: kani::any() };
        let _ = SnapshotUrgency::for_days(&cfg, kani::any());
        let _ = SnapshotUrgency::for_versions_since(&cfg, kani::any());
    }

    #[kani::proof]
    fn urgency_versions_full_domain() {
        let t: u32 = kani::any();
        let m: u32 = kani::any();
        let cfg = ServerConfig { snapshot_days: 0, snapshot_versions: t };
        let r = SnapshotUrgency::for_versions_since(&cfg, m);
        let high = (t as u64) * 3 / 2;
        let exp = if (m as u64) >= high {
            SnapshotUrgency::High
        } else if m >= t {
            SnapshotUrgency::Low
        } else {
            SnapshotUrgency::None
        };
        assert!(r == exp);
        assert!(high >= t as u64);
    }

    /// growing age / count never lowers the urgency
    #[kani::proof]
    fn urgency_monotone() {
        let cfg = ServerConfig { snapshot_days: kani::any(), snapshot_versions: kani::any() };
        kani::assume(cfg.snapshot_days >= 0);
        let d1: i64 = kani::any();
        let d2: i64 = kani::any();
        kani::assume(d1 <= d2);
        assert!(rank(SnapshotUrgency::for_days(&cfg, d1)) <= rank(SnapshotUrgency::for_days(&cfg, d2)));
        let m1: u32 = kani::any();
        let m2: u32 = kani::any();
        kani::assume(m1 <= m2);
        assert!(rank(SnapshotUrgency::for_versions_since(&cfg, m1)) <= rank(SnapshotUrgency::for_versions_since(&cfg, m2)));
    }

    /// A7: derived Ord on SnapshotUrgency follows the declaration order; std::cmp::max picks a maximal argument
    #[kani::proof]
    fn ord_axiom() {
        let all = [SnapshotUrgency::None, SnapshotUrgency::Low, SnapshotUrgency::High];
        let i: usize = kani::any();
        let j: usize = kani::any();
        kani::assume(i < 3 && j < 3);
        let (a, b) = (all[i], all[j]);
        let m = std::cmp::max(a, b);
        assert!(m == a || m == b);
        assert!(rank(m) >= rank(a) && rank(m) >= rank(b));
        assert!((a < b) == (rank(a) < rank(b)));
    }
}
