#!/usr/bin/env python3
"""(maintainer) token-level mutation of the functions under contract, on a scratch worktree.
For every mutant that still compiles and passes the repository's own test suite, run the Verus units on it
(VERIF_REPO=<worktree>) and record whether a named obligation fails.  Survivors are either equivalent mutants or
holes in the contracts; they are listed for inspection.  usage: mutate.py <worktree> <out.json> [file ...]"""
import json, os, re, subprocess, sys, hashlib, time
WT = sys.argv[1]
OUT = sys.argv[2]
FILES = sys.argv[3:] or ["core/src/server.rs", "core/src/inmemory.rs", "server/src/api/mod.rs", "server/src/api/add_version.rs",
                         "server/src/api/add_snapshot.rs", "server/src/api/get_child_version.rs", "server/src/api/get_snapshot.rs"]
UNITS = {"server/src/bin/taskchampion-sync-server.rs": ["u4"], "server/src/lib.rs": ["u3"], "core/src/server.rs": ["u1"], "core/src/inmemory.rs": ["u2"], "server/src/api/mod.rs": ["u3"], "server/src/api/add_version.rs": ["u3"],
         "server/src/api/add_snapshot.rs": ["u3"], "server/src/api/get_child_version.rs": ["u3"], "server/src/api/get_snapshot.rs": ["u3"]}
OPS = [(r"==", "!="), (r"!=", "=="), (r"&&", "||"), (r"\|\|", "&&"), (r"<=", "<"), (r">=", ">"), (r"(?<![-=<>!])>(?![=>])", ">="), (r"(?<![<=])<(?![=<])", "<="),
       (r"\+", "-"), (r"-= 1", "-= 2"), (r"\+= 1", "+= 2"), (r"\b0\b", "1"), (r"\b5\b", "4"), (r"\b5\b", "6"), (r"\b3 / 2\b", "2 / 1"), (r"\b100 \* 1024", "10 * 1024"),
       (r"!(?=[a-z(])", ""), (r"\?;", ".ok();"), (r"NIL_VERSION_ID", "client_id"), (r"parent_version_id", "version_id"), (r"version_id", "parent_version_id"),
       (r"SnapshotUrgency::High", "SnapshotUrgency::Low"), (r"SnapshotUrgency::Low", "SnapshotUrgency::None"), (r"urgency=low", "urgency=high"),
       (r"ErrorNotFound", "ErrorGone"), (r"ErrorGone", "ErrorNotFound"), (r"ErrorBadRequest", "ErrorInternalServerError"), (r"ErrorForbidden", "ErrorBadRequest"),
       (r"VERSION_ID_HEADER", "PARENT_VERSION_ID_HEADER"), (r"HttpResponse::Ok", "HttpResponse::Conflict"), (r"HttpResponse::Conflict", "HttpResponse::Ok"),
       (r"self\.client_id", "version_id"), (r"continue;", "return Err(error::ErrorNotFound(\"x\"));"), (r"txn\.commit\(\)\?;", ""), (r"self\.written = true;", ""),
       (r"\.is_some\(\)", ".is_none()"), (r"\.is_none\(\)", ".is_some()"), (r"\.is_empty\(\)", ".len() == 1"),
       (r"server_args\.snapshot_days", "14"), (r"server_args\.snapshot_versions", "100"), (r"server_args\.client_id_allowlist", "None"), (r"client_id_allowlist,", "client_id_allowlist: None,"),
       (r"Server::new\(config, storage\)", "Server::new(ServerConfig::default(), storage)"), (r"http_server = http_server\.bind\(listen_address\)\?", "http_server.bind(listen_address)?;"),
       (r"server_args\.data_dir", "OsString::from(\"/var/lib/taskchampion-sync-server\")")]

def sh(cmd, cwd=None, env=None, timeout=900):
    return subprocess.run(cmd, shell=True, cwd=cwd, env=env, capture_output=True, text=True, timeout=timeout)

def body_range(text):
    """only mutate non-test code: everything before `#[cfg(test)]`"""
    i = text.find("#[cfg(test)]")
    return 0, (i if i >= 0 else len(text))

results = []
t0 = time.time()
MODE = os.environ.get("MUT_MODE", "ops")
for f in FILES:
    path = os.path.join(WT, f)
    orig = open(path).read()
    lo, hi = body_range(orig)
    seen = set()
    ops = OPS
    if MODE == "delete":
        # statement deletion: every single-line statement that is not a `let`, a `use`, or a closing line
        ops = [(r"(?m)^[ \t]+(?!let |use |//|#\[|pub |fn |\}|\)|\.)[^\n{}]*;[ \t]*$", "")]
    for pat, rep in ops:
        for m in re.finditer(pat, orig[lo:hi]):
            a, b = lo + m.start(), lo + m.end()
            line_start = orig.rfind("\n", 0, a) + 1
            line = orig[line_start: orig.find("\n", a)]
            if line.strip().startswith("//") or "log::" in line or line.strip().startswith("#["):
                continue
            mutated = orig[:a] + rep + orig[b:]
            key = hashlib.sha1(mutated.encode()).hexdigest()
            if key in seen:
                continue
            seen.add(key)
            open(path, "w").write(mutated)
            rec = {"file": f, "line": orig.count("\n", 0, a) + 1, "op": "%s -> %s" % (pat, rep), "text": line.strip()[:120]}
            try:
                b1 = sh("cargo build --workspace --offline 2>&1 | tail -1", cwd=WT)
                if "error" in b1.stdout or "could not compile" in b1.stdout:
                    rec["status"] = "does-not-compile"
                else:
                    t = sh("cargo test --workspace --offline 2>&1 | grep -E '^test result|panicked|FAILED' | head -20", cwd=WT)
                    if "FAILED" in t.stdout or "failed" in t.stdout and " 0 failed" not in t.stdout.replace("0 failed", " 0 failed"):
                        rec["status"] = "killed-by-existing-tests"
                    elif re.search(r"[1-9]\d* failed", t.stdout):
                        rec["status"] = "killed-by-existing-tests"
                    else:
                        env = dict(os.environ, VERIF_REPO=WT, VERIF_GEN="/tmp/tcss-mut-gen")
                        failed = []
                        incon = []
                        for u in UNITS[f]:
                            v = sh("python3 /verif/lib/vrun.py %s" % u, env=env)
                            out = v.stdout
                            if "INCONCLUSIVE" in out or "STUBBED" in out or "errors=None" in out or "verified=0 errors=0" in out:
                                incon.append(out.strip().splitlines()[1][:160] if len(out.strip().splitlines()) > 1 else out[:160])
                            for l in out.splitlines():
                                mm = re.search(r"clause=([A-Za-z0-9_.@:-]+)", l)
                                if l.startswith("- ") and ("not satisfied" in l or "assertion failed" in l or "overflow" in l or "unable to prove" in l):
                                    failed.append(mm.group(1) if mm else "implicit")
                        rec["status"] = "caught-by-verus" if failed else ("inconclusive" if incon else "SURVIVED")
                        rec["failed_obligations"] = sorted(set(failed))[:8]
                        rec["inconclusive"] = incon[:1]
            except subprocess.TimeoutExpired:
                rec["status"] = "timeout"
            results.append(rec)
            print(rec["status"], f, rec["line"], rec["op"], rec.get("failed_obligations", ""), flush=True)
            json.dump({"results": results, "wall_s": time.time() - t0}, open(OUT, "w"), indent=1)
    open(path, "w").write(orig)
summary = {}
for r in results:
    summary[r["status"]] = summary.get(r["status"], 0) + 1
json.dump({"summary": summary, "results": results, "wall_s": time.time() - t0}, open(OUT, "w"), indent=1)
print(summary)
