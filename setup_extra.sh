#!/bin/bash
# builds the bounded-leg crate (real /repo crates + executable oracle) offline, into /verif/target
set -e
cd /verif/conform
CARGO_NET_OFFLINE=true CARGO_TARGET_DIR=/verif/target cargo build --offline
# the real server executable, for the C17 process leg (built by /repo's own manifest into /verif/target/repo)
CARGO_NET_OFFLINE=true CARGO_TARGET_DIR=/verif/target/repo cargo build --offline --manifest-path /repo/Cargo.toml -p taskchampion-sync-server --bin taskchampion-sync-server
