#!/bin/bash
# builds the bounded-leg crate (real /repo crates + executable oracle) offline, into /verif/target
set -e
cd /verif/conform
CARGO_NET_OFFLINE=true CARGO_TARGET_DIR=/verif/target cargo build --offline
