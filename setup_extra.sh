#!/bin/bash
# builds the remaining framework crates offline (none yet besides the extractor)
exit 0
