//! C05 (bounded): every storage call of a request is made to fail, before or after taking effect.
use crate::absfn;
use crate::explore::*;
use crate::model::*;
use serde_json::{json, Value};
use taskchampion_sync_server_core::{AddVersionResult, ServerError};

#[derive(Debug)]
enum Out {
    Ok(String),
    NoSuchClient,
    Err(String),
}

fn exec(run: &mut Run, op: &Op) -> (Out, Option<(uuid::Uuid, uuid::Uuid, Vec<u8>)>) {
    match op {
        Op::AddVersion(c, sel, pl) => {
            let cl = run.clients[*c];
            let p = run.resolve(*c, *sel);
            let payload = PAYLOADS[*pl % PAYLOADS.len()].to_vec();
            run.trace.push(format!("add_version(client{c}, parent={sel:?}={p}, payload={payload:?}) [faulted]"));
            match run.world.server.add_version(cl, p, payload.clone()) {
                Ok((AddVersionResult::Ok(v), _)) => (Out::Ok(format!("accepted {v}")), Some((v, p, payload))),
                Ok((AddVersionResult::ExpectedParentVersion(l), _)) => (Out::Ok(format!("conflict {l}")), None),
                Err(ServerError::NoSuchClient) => (Out::NoSuchClient, None),
                Err(e) => (Out::Err(format!("{e}").lines().next().unwrap_or("").to_string()), Some((NIL, p, payload))),
            }
        }
        Op::AddSnap(c, sel, pl) => {
            let cl = run.clients[*c];
            let v = run.resolve(*c, *sel);
            let data = PAYLOADS[*pl % PAYLOADS.len()].to_vec();
            run.trace.push(format!("add_snapshot(client{c}, version={sel:?}={v}) [faulted]"));
            match run.world.server.add_snapshot(cl, v, data.clone()) {
                Ok(()) => (Out::Ok("ok".into()), Some((v, NIL, data))),
                Err(ServerError::NoSuchClient) => (Out::NoSuchClient, None),
                Err(e) => (Out::Err(format!("{e}").lines().next().unwrap_or("").to_string()), Some((v, NIL, data))),
            }
        }
        Op::Gcv(c, sel) => {
            let cl = run.clients[*c];
            let p = run.resolve(*c, *sel);
            run.trace.push(format!("get_child_version(client{c}, parent={sel:?}={p}) [faulted]"));
            match run.world.server.get_child_version(cl, p) {
                Ok(r) => (Out::Ok(format!("{r:?}")), None),
                Err(ServerError::NoSuchClient) => (Out::NoSuchClient, None),
                Err(e) => (Out::Err(format!("{e}").lines().next().unwrap_or("").to_string()), None),
            }
        }
        Op::GetSnap(c) => {
            let cl = run.clients[*c];
            run.trace.push(format!("get_snapshot(client{c}) [faulted]"));
            match run.world.server.get_snapshot(cl) {
                Ok(r) => (Out::Ok(format!("{r:?}")), None),
                Err(ServerError::NoSuchClient) => (Out::NoSuchClient, None),
                Err(e) => (Out::Err(format!("{e}").lines().next().unwrap_or("").to_string()), None),
            }
        }
        Op::Create(_) | Op::Age(..) => (Out::Ok("skip".into()), None),
    }
}

pub fn leg_faults(thorough: bool) -> Value {
    let mut cases = 0usize;
    let mut injected = 0usize;
    let mut violations: Vec<Value> = vec![];
    let mut samples: Vec<Value> = vec![];
    let prefixes = seed_prefixes();
    let targets = [
        Op::AddVersion(0, IdSel::Latest, 1),
        Op::AddVersion(0, IdSel::Ancestor(1), 1),
        Op::AddSnap(0, IdSel::Latest, 2),
        Op::AddSnap(0, IdSel::Ancestor(1), 2),
        Op::Gcv(0, IdSel::Base),
        Op::GetSnap(0),
    ];
    let pre_idx: Vec<usize> = if thorough { (0..prefixes.len()).collect() } else { vec![3, 9, 10, 13] };
    for pi in pre_idx {
        let pre = &prefixes[pi.min(prefixes.len() - 1)];
        for target in &targets {
            // dry run: how many storage calls does the target make?
            let ncalls = {
                let mut run = Run { world: World::new_faulty((3, 2)), ..Run::new(BackendKind::Mem, (3, 2)) };
                for op in pre {
                    if run.step(op).is_err() {
                        break;
                    }
                }
                let c0 = run.world.plan.as_ref().unwrap().lock().unwrap().calls;
                let _ = exec(&mut run, target);
                let c1 = run.world.plan.as_ref().unwrap().lock().unwrap().calls;
                c1 - c0
            };
            let mut plans: Vec<(Vec<usize>, bool)> = vec![];
            for i in 0..ncalls {
                plans.push((vec![i], false));
                plans.push((vec![i], true));
            }
            if thorough {
                for i in 0..ncalls {
                    for j in i + 1..ncalls {
                        plans.push((vec![i, j], false));
                    }
                }
            }
            for (idxs, after) in plans {
                cases += 1;
                let mut run = Run { world: World::new_faulty((3, 2)), ..Run::new(BackendKind::Mem, (3, 2)) };
                let mut ok = true;
                for op in pre {
                    if let Err(v) = run.step(op) {
                        violations.push(v.to_json());
                        ok = false;
                        break;
                    }
                }
                if !ok {
                    continue;
                }
                let cl = run.clients[0];
                let before = cs(&run.model, cl);
                let plan = run.world.plan.clone().unwrap();
                let (base, names) = {
                    let mut p = plan.lock().unwrap();
                    let b = p.calls;
                    p.fail_at = idxs.iter().map(|i| b + i).collect();
                    p.after_effect = after;
                    p.trace.clear();
                    (b, ())
                };
                let _ = (base, names);
                let (out, wr) = exec(&mut run, target);
                let (inj, tr) = {
                    let mut p = plan.lock().unwrap();
                    p.fail_at.clear();
                    (p.injected, p.trace.clone())
                };
                injected += if inj > 0 { 1 } else { 0 };
                let probe = run.world.probe();
                let real = match absfn::via_api(probe.as_ref(), cl, &run.universe) {
                    Ok(r) => r,
                    Err(e) => {
                        violations.push(json!({"tags": ["C05"], "what": format!("state unreadable after fault: {e}"), "trace": run.trace}));
                        continue;
                    }
                };
                let raw = absfn::via_raw_sql(run.world.dir.as_ref().unwrap().path()).unwrap();
                let raw_c = cs(&raw.db, cl);
                let what_fault = format!("fault at storage call(s) {:?} of {:?} ({}), calls made: {:?}", idxs, target, if after { "after taking effect" } else { "before taking effect" }, tr);
                // expected post-states
                let unchanged = raw_c == before && real == before;
                let mut applied = false;
                if let Some((a, b, bytes)) = &wr {
                    match target {
                        Op::AddVersion(..) => {
                            // exactly one new version with this parent and payload, id arbitrary
                            let newv: Vec<_> = raw_c.versions.keys().filter(|k| !before.versions.contains_key(k)).cloned().collect();
                            if newv.len() == 1 {
                                let exp = add_version_spec(&before, newv[0], *b, bytes);
                                applied = raw_c == exp;
                            }
                        }
                        Op::AddSnap(..) => {
                            applied = raw_c == set_snapshot_spec(&before, *a, 0, bytes);
                        }
                        _ => {}
                    }
                }
                let faulted = inj > 0;
                let bad = match &out {
                    Out::Ok(s) if faulted && !(s.starts_with("conflict") && false) => {
                        // a fault was injected in a call this request made, and the request still reported success
                        Some(format!("request answered success ({s}) although a storage call failed"))
                    }
                    Out::Ok(s) => {
                        if s.starts_with("accepted") || (matches!(target, Op::AddSnap(..)) && (snap_should_accept(&before, wr.as_ref().map(|w| w.0).unwrap_or(NIL)))) {
                            if applied { None } else { Some(format!("success ({s}) reported but the change is not committed")) }
                        } else if unchanged { None } else { Some(format!("non-mutating outcome ({s}) changed state")) }
                    }
                    Out::NoSuchClient => if unchanged { None } else { Some("NoSuchClient changed state".into()) },
                    Out::Err(_) => {
                        let commit_ack_lost = after && tr.last().map(|s| s == "commit").unwrap_or(false);
                        if unchanged || (applied && commit_ack_lost) { None } else { Some(format!("error response left a partial or unexpected effect (applied-completely={applied})")) }
                    }
                };
                if let Some(b) = bad {
                    // an ANSWER given although a look-up failed is also a wrong verdict of that operation (gcv.answer_sound / av.answer_sound)
                    let mut tags = vec!["C05"];
                    if faulted && matches!(out, Out::Ok(_)) {
                        match target {
                            Op::Gcv(..) => tags.push("C08"),
                            Op::AddVersion(..) => tags.push("C02"),
                            Op::GetSnap(..) => tags.push("C11"),
                            _ => {}
                        }
                    }
                    violations.push(json!({"tags": tags, "what": format!("{b}; {what_fault}; outcome {:?}", out), "trace": run.trace, "state_before": format!("{before:?}"), "state_after": format!("{raw_c:?}")}));
                    continue;
                }
                if samples.len() < 4 && faulted {
                    samples.push(json!({"fault": what_fault, "outcome": format!("{out:?}"), "state": if unchanged { "unchanged" } else { "applied (acknowledgement lost)" }}));
                }
                // later requests are served normally
                run.model.insert(cl, real.clone());
                if let Some(s) = &real.snapshot {
                    let _ = s;
                }
                run.accepted.insert(cl, walk(&real, back(&real, chain_wf(&real).unwrap_or(0))).unwrap_or_default());
                for u in real.versions.keys() {
                    if !run.universe.contains(u) {
                        run.universe.push(*u);
                    }
                }
                for op in [Op::Gcv(0, IdSel::Base), Op::AddVersion(0, IdSel::Latest, 0), Op::GetSnap(0)] {
                    if let Err(v) = run.step(&op) {
                        let mut j = v.to_json();
                        j["tags"] = json!(["C05"]);
                        j["what"] = json!(format!("request after a failed one not served normally: {}; {what_fault}", v.what));
                        violations.push(j);
                        break;
                    }
                }
            }
        }
    }
    // keep at most 3 reports per distinct tag set
    let mut kept: Vec<Value> = vec![];
    for v in violations.into_iter() {
        if kept.iter().filter(|x| x["tags"] == v["tags"]).count() < 3 {
            kept.push(v);
        }
    }
    let violations = kept;
    json!({"leg": "faults", "cases": cases, "cases_with_injected_fault": injected, "violations": violations, "samples": samples,
           "bound": format!("SQLite only; {} seed histories x 6 target requests x every storage call (begin, reads, writes, commit) failing before / after effect{}", if thorough { "all" } else { "4" }, if thorough { " + all double faults (before effect)" } else { "" })})
}
