//! Bounded conformance of the SQLite backend (sqlite/src/lib.rs) to the storage contract of
//! contracts/storage_trait.rs, method by method (DESIGN.md 4.7).  The clause names are those of
//! the contract; each carries the properties that rely on it.
use crate::absfn;
use crate::explore::*;
use crate::model::*;
use serde_json::{json, Value};
use taskchampion_sync_server_core::{Snapshot, Storage};
use taskchampion_sync_server_storage_sqlite::SqliteStorage;
use uuid::Uuid;

fn tags_of(clause: &str) -> Vec<&'static str> {
    match clause {
        "st.get_client.post" => vec!["C13", "C01", "C02", "C08", "C12", "C18"],
        "st.new_client.post" => vec!["C13", "C03"],
        "st.set_snapshot.post" => vec!["C13", "C10", "C11", "C12", "C06"],
        "st.get_snapshot_data.post" => vec!["C13", "C11", "C06", "C18"],
        "st.get_version_by_parent.post" => vec!["C13", "C01", "C07", "C08", "C06", "C09", "C18"],
        "st.get_version.post" => vec!["C13", "C10", "C11", "C09", "C07", "C18"],
        "st.add_version.post" => vec!["C13", "C01", "C02", "C06", "C07", "C12", "C09"],
        "st.frame" => vec!["C13", "C09", "C12", "C07", "C11"],
        "st.commit" => vec!["C13", "C03", "C05", "C07"],
        "st.drop" => vec!["C13", "C03", "C05", "C18"],
        "st.reopen" => vec!["C13", "C07"],
        _ => vec!["C13"],
    }
}

#[derive(Clone, Debug)]
enum Call {
    GetClient,
    NewClient(Uuid),
    SetSnapshot(Uuid, u32, Vec<u8>),
    GetSnapshotData(Uuid),
    GetVersionByParent(Uuid),
    GetVersion(Uuid),
    AddVersion(Uuid, Uuid, Vec<u8>),
}

pub fn leg_sqlconf(thorough: bool) -> Value {
    let mut cases = 0usize;
    let mut violations: Vec<Value> = vec![];
    let mut states = std::collections::BTreeSet::new();
    let mut samples: Vec<Value> = vec![];
    let blobs: Vec<Vec<u8>> = {
        let mut b: Vec<Vec<u8>> = vec![b"x".to_vec(), vec![0, 0xff], b"123".to_vec(), vec![0xc3, 0x28], b"-1.5e3".to_vec(), vec![]];
        for n in [4095usize, 4096, 4097, 65536] {
            b.push((0..n).map(|i| (i * 13 % 256) as u8).collect());
        }
        if thorough {
            b.push((0..(1usize << 20)).map(|i| (i % 251) as u8).collect());
        }
        b
    };
    let prefixes = seed_prefixes();
    for (pi, pre) in prefixes.iter().enumerate() {
        // build the state through the real server, following the model
        let mut run = Run::new(BackendKind::Sqlite, (3, 2));
        run.light = true;
        let mut bad = false;
        for (n, op) in pre.iter().enumerate() {
            if let Err(mut v) = run.step(op) {
                crate::explore::isolation_tag(BackendKind::Sqlite, (3, 2), &pre[..=n], &mut v);
                let mut j = v.to_json();
                j["clause"] = json!("(state construction)");
                violations.push(j);
                bad = true;
                break;
            }
        }
        if bad {
            continue;
        }
        let dir = run.world.dir.as_ref().unwrap().path().to_path_buf();
        let me = run.clients[0];
        let other = run.clients[1];
        let c = cs(&run.model, me);
        let o = cs(&run.model, other);
        let n = chain_wf(&c).unwrap_or(0);
        let fresh = Uuid::new_v4();
        let mut ids: Vec<Uuid> = vec![NIL, c.latest, back(&c, 1), back(&c, n), fresh, o.latest, back(&o, 1)];
        if let Some(s) = &c.snapshot {
            ids.push(s.version_id);
        }
        ids.sort();
        ids.dedup();
        let mut universe = run.universe.clone();
        universe.push(fresh);
        let mut calls: Vec<Call> = vec![Call::GetClient];
        for id in &ids {
            calls.push(Call::GetVersion(*id));
            calls.push(Call::GetVersionByParent(*id));
        }
        if let Some(s) = &c.snapshot {
            calls.push(Call::GetSnapshotData(s.version_id));
        }
        if !c.exists {
            calls.push(Call::NewClient(NIL));
            calls.push(Call::NewClient(fresh));
        } else {
            for (bi, b) in blobs.iter().enumerate() {
                if !thorough && bi > 6 && pi > 3 {
                    continue;
                }
                // add_version within its preconditions: id not stored, parent without child
                let v = Uuid::new_v4();
                universe.push(v);
                let p = if c.latest == NIL { ids[bi % ids.len()] } else { c.latest };
                if !c.children.contains_key(&p) && p != v {
                    calls.push(Call::AddVersion(v, p, b.clone()));
                }
                calls.push(Call::SetSnapshot(ids[bi % ids.len()], (bi as u32) * 7, b.clone()));
            }
        }
        // ---- one LONG-LIVED storage object: what a later transaction of the same object reads reflects every transaction
        // committed before it (nothing may be remembered in the object across transactions: st.object.fresh)
        if c.exists {
            cases += 1;
            let work = tempfile::Builder::new().prefix("tcss-sqlconf-").tempdir_in(dir.parent().unwrap()).unwrap();
            for e in std::fs::read_dir(&dir).unwrap().flatten() {
                std::fs::copy(e.path(), work.path().join(e.file_name())).unwrap();
            }
            let st = SqliteStorage::new(work.path()).unwrap();
            let r = (|| -> anyhow::Result<Option<String>> {
                let first = absfn::via_api(&st, me, &universe)?; // reads everything once through this object
                let sv = c.snapshot.as_ref().map(|s| s.version_id).unwrap_or(c.latest);
                {
                    let mut t = st.txn(me)?;
                    t.set_snapshot(Snapshot { version_id: sv, timestamp: chrono::Utc::now(), versions_since: 3 }, b"replaced".to_vec())?;
                    t.commit()?;
                }
                let mut exp = set_snapshot_spec(&first, sv, 3, b"replaced");
                let nv = Uuid::new_v4();
                let mut uni = universe.clone();
                uni.push(nv);
                if !first.children.contains_key(&first.latest) {
                    let mut t = st.txn(me)?;
                    t.add_version(nv, first.latest, b"seg".to_vec())?;
                    t.commit()?;
                    exp = add_version_spec(&exp, nv, first.latest, b"seg");
                }
                let second = absfn::via_api(&st, me, &uni)?; // the SAME object again
                if second != exp {
                    return Ok(Some(format!("a storage object that has already been read from serves {:?} after set_snapshot({sv}, versions_since 3, \"replaced\") and add_version were committed through it; the contract gives {:?}", second, exp)));
                }
                let other_now = absfn::via_api(&st, other, &uni)?;
                if other_now != o {
                    return Ok(Some(format!("another client's state changed: {:?} (was {:?})", other_now, o)));
                }
                Ok(None)
            })();
            match r {
                Ok(None) => {}
                Ok(Some(p)) => {
                    if violations.iter().filter(|x: &&Value| x["clause"] == json!("st.object.fresh")).count() < 2 {
                        violations.push(json!({"tags": ["C13", "C11", "C07", "C09", "C12"], "clause": "st.object.fresh", "what": format!("SQLite backend violates st.object.fresh: {p}"),
                            "trace": pre.iter().map(|o| format!("{o:?}")).chain(["then, through ONE SqliteStorage object: read the whole client state; set_snapshot + commit; add_version + commit; read the whole client state again".to_string()]).collect::<Vec<_>>()}));
                    }
                }
                Err(e) => {
                    if violations.iter().filter(|x: &&Value| x["clause"] == json!("st.object.fresh")).count() < 2 {
                        violations.push(json!({"tags": ["C13", "C05"], "clause": "st.object.fresh", "what": format!("SQLite backend: a sequence of transactions within the storage preconditions through one storage object failed: {e:#}"),
                            "trace": pre.iter().map(|o| format!("{o:?}")).collect::<Vec<_>>()}));
                    }
                }
            }
        }
        let mut getters_broken = false;
        for call in &calls {
            for commit in [true, false] {
                for reopen in [false, true] {
                    if reopen && !commit {
                        continue;
                    }
                    if matches!(call, Call::GetClient | Call::GetVersion(_) | Call::GetVersionByParent(_) | Call::GetSnapshotData(_)) && (!commit || reopen) {
                        continue;
                    }
                    cases += 1;
                    // fresh copy of the database directory so that every case starts from the same state
                    let work = tempfile::Builder::new().prefix("tcss-sqlconf-").tempdir_in(dir.parent().unwrap()).unwrap();
                    for e in std::fs::read_dir(&dir).unwrap().flatten() {
                        std::fs::copy(e.path(), work.path().join(e.file_name())).unwrap();
                    }
                    let st = SqliteStorage::new(work.path()).unwrap();
                    let before_raw = absfn::via_raw_sql(work.path()).unwrap();
                    let pre_c = cs(&before_raw.db, me);
                    let mut clause = "";
                    let mut problem: Option<String> = None;
                    let mut expect_cur = pre_c.clone();
                    {
                        let mut txn = st.txn(me).unwrap();
                        match call {
                            Call::GetClient => {
                                clause = "st.get_client.post";
                                let r = txn.get_client();
                                let want = if pre_c.exists { Some((pre_c.latest, pre_c.snapshot.clone())) } else { None };
                                let got = r.as_ref().ok().map(|o| o.as_ref().map(|cl| (cl.latest_version_id, cl.snapshot.as_ref().map(|s| GSnap { version_id: s.version_id, versions_since: s.versions_since }))));
                                if got != Some(want.clone()) {
                                    problem = Some(format!("get_client returned {r:?}, contract: {want:?}"));
                                }
                            }
                            Call::GetVersion(id) => {
                                clause = "st.get_version.post";
                                let r = txn.get_version(*id);
                                let want = pre_c.versions.get(id).cloned();
                                let got = r.as_ref().ok().map(|o| o.as_ref().map(|v| GVersion { version_id: v.version_id, parent_version_id: v.parent_version_id, history_segment: v.history_segment.clone() }));
                                if got != Some(want.clone()) {
                                    problem = Some(format!("get_version({id}) returned {:?}, contract: {:?} (this client's versions only)", r.map(|o| o.map(|v| (v.version_id, v.parent_version_id))), want.map(|v| (v.version_id, v.parent_version_id))));
                                }
                            }
                            Call::GetVersionByParent(id) => {
                                clause = "st.get_version_by_parent.post";
                                let r = txn.get_version_by_parent(*id);
                                let want = pre_c.children.get(id).and_then(|ch| pre_c.versions.get(ch)).cloned();
                                let got = r.as_ref().ok().map(|o| o.as_ref().map(|v| GVersion { version_id: v.version_id, parent_version_id: v.parent_version_id, history_segment: v.history_segment.clone() }));
                                if got != Some(want.clone()) {
                                    problem = Some(format!("get_version_by_parent({id}) returned {:?}, contract: {:?}", r.map(|o| o.map(|v| (v.version_id, v.parent_version_id))), want.map(|v| (v.version_id, v.parent_version_id))));
                                }
                            }
                            Call::GetSnapshotData(id) => {
                                clause = "st.get_snapshot_data.post";
                                let r = txn.get_snapshot_data(*id);
                                if r.as_ref().ok() != Some(&pre_c.snapshot_data) {
                                    problem = Some(format!("get_snapshot_data returned {:?} bytes, contract: {:?} bytes", r.map(|o| o.map(|d| d.len())), pre_c.snapshot_data.as_ref().map(|d| d.len())));
                                }
                            }
                            Call::NewClient(l) => {
                                clause = "st.new_client.post";
                                if let Err(e) = txn.new_client(*l) {
                                    problem = Some(format!("new_client failed within its precondition: {e}"));
                                }
                                expect_cur = new_client_spec(*l);
                            }
                            Call::SetSnapshot(v, vs, data) => {
                                clause = "st.set_snapshot.post";
                                let snap = Snapshot { version_id: *v, timestamp: chrono::Utc::now(), versions_since: *vs };
                                if let Err(e) = txn.set_snapshot(snap, data.clone()) {
                                    problem = Some(format!("set_snapshot failed within its precondition: {e}"));
                                }
                                expect_cur = set_snapshot_spec(&pre_c, *v, *vs, data);
                            }
                            Call::AddVersion(v, p, seg) => {
                                clause = "st.add_version.post";
                                if let Err(e) = txn.add_version(*v, *p, seg.clone()) {
                                    problem = Some(format!("add_version failed within its precondition: {e}"));
                                }
                                expect_cur = add_version_spec(&pre_c, *v, *p, seg);
                            }
                        }
                        let is_getter = matches!(call, Call::GetClient | Call::GetVersion(_) | Call::GetVersionByParent(_) | Call::GetSnapshotData(_));
                        if is_getter && problem.is_some() {
                            getters_broken = true;
                        }
                        if problem.is_none() && !is_getter && !getters_broken {
                            // what this transaction now sees (read through the getters, which conform on this state)
                            match absfn::via_txn(txn.as_mut(), &universe) {
                                Ok(cur) => {
                                    if cur != expect_cur {
                                        problem = Some(format!("inside the transaction the client state is {cur:?}, contract: {expect_cur:?}"));
                                    }
                                }
                                Err(e) => problem = Some(format!("reading back inside the transaction failed: {e}")),
                            }
                        }
                        if commit && problem.is_none() {
                            if let Err(e) = txn.commit() {
                                clause = "st.commit";
                                problem = Some(format!("commit failed: {e}"));
                            }
                        }
                    }
                    if problem.is_none() {
                        if reopen {
                            let _ = SqliteStorage::new(work.path()).unwrap();
                        }
                        let after = absfn::via_raw_sql(work.path()).unwrap();
                        let want_me = if commit { expect_cur.clone() } else { pre_c.clone() };
                        let got_me = cs(&after.db, me);
                        if !after.anomalies.is_empty() {
                            problem = Some(format!("database anomalies after the call: {:?}", after.anomalies));
                        } else if got_me != want_me {
                            clause = if reopen { "st.reopen" } else if commit { "st.commit" } else { "st.drop" };
                            problem = Some(format!("durable state of the client is {got_me:?}, contract: {want_me:?}"));
                        } else {
                            for (k, v) in &before_raw.db {
                                if *k != me && cs(&after.db, *k) != *v {
                                    clause = "st.frame";
                                    problem = Some(format!("another client's rows changed: {:?} -> {:?}", v, cs(&after.db, *k)));
                                }
                            }
                            for k in after.db.keys() {
                                if *k != me && !before_raw.db.contains_key(k) {
                                    clause = "st.frame";
                                    problem = Some(format!("rows appeared for another client {k}"));
                                }
                            }
                        }
                    }
                    states.insert(format!("{pi}:{:?}", std::mem::discriminant(call)));
                    if let Some(p) = problem {
                        if violations.iter().filter(|x: &&Value| x["clause"] == json!(clause)).count() < 2 && violations.len() < 30 {
                            let desc = match call {
                                Call::AddVersion(v, p, s) => format!("add_version({v}, parent {p}, {} bytes)", s.len()),
                                Call::SetSnapshot(v, vs, d) => format!("set_snapshot(version {v}, versions_since {vs}, {} bytes)", d.len()),
                                other => format!("{other:?}"),
                            };
                            violations.push(json!({"tags": tags_of(clause), "clause": clause, "what": format!("SQLite backend violates {clause}: {p}"),
                                "trace": pre.iter().map(|o| format!("{o:?}")).chain([format!("then, in one transaction for client0: {desc}; {}{}", if commit { "commit" } else { "drop without commit" }, if reopen { "; re-open the database" } else { "" })]).collect::<Vec<_>>()}));
                        }
                    } else if samples.len() < 4 && matches!(call, Call::AddVersion(..) | Call::SetSnapshot(..)) {
                        samples.push(json!({"state": format!("seed prefix #{pi}"), "call": format!("{:?}", std::mem::discriminant(call)), "end": if commit { "commit" } else { "drop" }, "reopen": reopen}));
                    }
                }
            }
        }
    }
    // exclusivity (C03 / A5 as far as this code is concerned): while ANOTHER connection holds the write lock, txn()
    // must wait and then fail; it must never hand out a "transaction" that is not one (writes would auto-commit)
    {
        cases += 1;
        let dir = tempfile::Builder::new().prefix("tcss-sqllock-").tempdir_in(if std::path::Path::new("/dev/shm").is_dir() { "/dev/shm" } else { "/tmp" }).unwrap();
        let st = SqliteStorage::new(dir.path()).unwrap();
        let cl = Uuid::new_v4();
        let holder = rusqlite::Connection::open(dir.path().join("taskchampion-sync-server.sqlite3")).unwrap();
        holder.execute("BEGIN IMMEDIATE", []).unwrap();
        let t0 = std::time::Instant::now();
        let r = st.txn(cl);
        let waited = t0.elapsed().as_secs_f64();
        match r {
            Err(_) => {}
            Ok(mut txn) => {
                // what does a write through it do while the other connection still holds the lock?
                let w = txn.new_client(NIL);
                drop(txn);
                holder.execute("ROLLBACK", []).unwrap();
                let raw = absfn::via_raw_sql(dir.path()).unwrap();
                let leaked = cs(&raw.db, cl).exists;
                violations.push(json!({"tags": ["C03", "C05", "C01", "C13"], "clause": "st.txn.exclusive",
                    "what": format!("SQLite backend violates st.txn.exclusive: txn() returned a transaction after {waited:.1}s although another connection held the write lock the whole time (write through it: {:?}; a change from the dropped, un-committed transaction is visible afterwards: {leaked})", w.map_err(|e| e.to_string())),
                    "trace": ["another connection: BEGIN IMMEDIATE (held)", "storage.txn(client)"]}));
            }
        }
        samples.push(json!({"state": "write lock held by another connection", "call": "Storage::txn", "waited_s": waited}));
    }
    json!({"leg": "sqlconf", "cases": cases, "distinct_state_x_method": states.len(), "violations": violations, "samples": samples,
        "bound": format!("{} seed states (empty client; chains of 1, 2, 6 versions with nil / non-nil base; snapshot at latest / older; two clients with crossing ids) x every StorageTxn method x id alphabet (nil, latest, previous, base, fresh, other client's latest and previous, snapshot version) x payloads (1 B, 0x00/0xFF, numeric-looking text, invalid UTF-8, empty, 4095, 4096, 4097, 65536 B{}) x commit / drop x re-open; abstraction by independent raw SQL; plus one lock-contention case (write lock held by another connection for the whole lock-wait budget)", prefixes.len(), if thorough { ", 1 MiB" } else { "" })})
}
