//! Executable oracle: the spec functions of prelude/state.rs and contracts/u1.vspec, written a second
//! time as ordinary Rust (same names, same definitions; clause ids in comments).  This is the
//! BOUNDED side of the framework: it is evaluated on the real code, never proved.

use std::collections::BTreeMap;
use uuid::Uuid;

pub const NIL: Uuid = Uuid::nil();

#[derive(Clone, PartialEq, Eq, Debug)]
pub struct GVersion {
    pub version_id: Uuid,
    pub parent_version_id: Uuid,
    pub history_segment: Vec<u8>,
}

/// snapshot meta without the timestamp (sub-second clock values are outside the properties)
#[derive(Clone, PartialEq, Eq, Debug)]
pub struct GSnap {
    pub version_id: Uuid,
    pub versions_since: u32,
}

#[derive(Clone, PartialEq, Eq, Debug, Default)]
pub struct CState {
    pub exists: bool,
    pub latest: Uuid,
    pub snapshot: Option<GSnap>,
    pub snapshot_data: Option<Vec<u8>>,
    pub versions: BTreeMap<Uuid, GVersion>,
    pub children: BTreeMap<Uuid, Uuid>,
}

pub type Db = BTreeMap<Uuid, CState>;

pub fn absent() -> CState {
    CState { exists: false, latest: NIL, snapshot: None, snapshot_data: None, versions: BTreeMap::new(), children: BTreeMap::new() }
}

pub fn cs(db: &Db, c: Uuid) -> CState {
    db.get(&c).cloned().unwrap_or_else(absent)
}

pub fn new_client_spec(latest: Uuid) -> CState {
    CState { exists: true, latest, ..absent() }
}

pub fn add_version_spec(c: &CState, v: Uuid, p: Uuid, seg: &[u8]) -> CState {
    let mut d = c.clone();
    d.latest = v;
    if let Some(s) = &mut d.snapshot {
        s.versions_since = s.versions_since.wrapping_add(1);
    }
    d.versions.insert(v, GVersion { version_id: v, parent_version_id: p, history_segment: seg.to_vec() });
    d.children.insert(p, v);
    d
}

pub fn set_snapshot_spec(c: &CState, v: Uuid, versions_since: u32, data: &[u8]) -> CState {
    let mut d = c.clone();
    d.snapshot = Some(GSnap { version_id: v, versions_since });
    d.snapshot_data = Some(data.to_vec());
    d
}

pub fn stored(c: &CState, u: Uuid) -> bool {
    c.versions.contains_key(&u)
}

/// back(c, 0) = latest; back(c, k+1) = parent of back(c, k)
pub fn back(c: &CState, k: usize) -> Uuid {
    let mut u = c.latest;
    for _ in 0..k {
        u = match c.versions.get(&u) {
            Some(v) => v.parent_version_id,
            None => NIL,
        };
    }
    u
}

/// chain_wf: returns Err(reason) when the predicate of prelude/state.rs is false
pub fn chain_wf(c: &CState) -> Result<usize, String> {
    if !c.exists {
        return if *c == absent() { Ok(0) } else { Err("non-existent client holds data".into()) };
    }
    // find n: first position that is not stored
    let mut n = 0usize;
    let mut seen = std::collections::BTreeSet::new();
    loop {
        let u = back(c, n);
        if !stored(c, u) {
            break;
        }
        if u == NIL {
            return Err("nil id stored as a version".into());
        }
        if !seen.insert(u) {
            return Err(format!("cycle in parent links at {u}"));
        }
        if c.versions[&u].version_id != u {
            return Err(format!("version stored under the wrong key {u}"));
        }
        n += 1;
        if n > c.versions.len() + 1 {
            return Err("walk longer than the number of versions".into());
        }
    }
    if seen.len() != c.versions.len() {
        return Err(format!("orphan versions: {} stored, {} on the chain from latest", c.versions.len(), seen.len()));
    }
    for (u, v) in &c.versions {
        if c.children.get(&v.parent_version_id) != Some(u) {
            return Err(format!("child index does not map parent of {u} to it (two versions share a parent?)"));
        }
    }
    for (p, ch) in &c.children {
        match c.versions.get(ch) {
            Some(v) if v.parent_version_id == *p => {}
            _ => return Err(format!("child index entry {p} -> {ch} has no matching version")),
        }
    }
    if (n == 0) != (c.latest == NIL) {
        return Err(format!("latest is {} but the chain has {} versions", c.latest, n));
    }
    if let Some(s) = &c.snapshot {
        if s.version_id == NIL {
            return Err("snapshot for the nil version".into());
        }
        if !(0..=n).any(|k| back(c, k) == s.version_id) {
            return Err(format!("snapshot version {} is neither on the chain nor its base", s.version_id));
        }
    }
    if c.snapshot.is_some() != c.snapshot_data.is_some() {
        return Err("snapshot meta and data out of step".into());
    }
    Ok(n)
}

/// C02: accepted exactly when the client has no versions yet or p is the current latest
pub fn accept(c: &CState, p: Uuid) -> bool {
    c.latest == NIL || p == c.latest
}

#[derive(Clone, PartialEq, Eq, Debug)]
pub enum Gcv {
    NoSuchClient,
    NotFound,
    Gone,
    Found(GVersion),
}

/// gcv.found / gcv.split / gcv.nosuch
pub fn gcv_spec(c: &CState, p: Uuid) -> Gcv {
    if !c.exists {
        return Gcv::NoSuchClient;
    }
    if let Some(ch) = c.children.get(&p) {
        if let Some(v) = c.versions.get(ch) {
            return Gcv::Found(v.clone());
        }
    }
    if accept(c, p) {
        Gcv::NotFound
    } else {
        Gcv::Gone
    }
}

pub fn snap_at(c: &CState, u: Uuid) -> bool {
    matches!(&c.snapshot, Some(s) if s.version_id == u)
}

/// C10 (from the statement): v at position k among the five most recent, no newer snapshot in the window
pub fn snap_acc_at(c: &CState, v: Uuid, k: usize) -> bool {
    k < 5 && (0..=k).all(|j| stored(c, back(c, j))) && back(c, k) == v && (0..k).all(|j| !snap_at(c, back(c, j)))
}

pub fn snap_should_accept(c: &CState, v: Uuid) -> bool {
    v != NIL && !snap_at(c, v) && (0..5).any(|k| snap_acc_at(c, v, k))
}

pub fn snap_corner(c: &CState, v: Uuid) -> bool {
    v != NIL && !snap_at(c, v) && (0..5).any(|k| back(c, k) == v && !stored(c, v) && (0..k).all(|j| stored(c, back(c, j)) && !snap_at(c, back(c, j))))
}

#[derive(Clone, Copy, PartialEq, Eq, Debug, PartialOrd, Ord)]
pub enum Urg {
    None,
    Low,
    High,
}

/// C12: floor(3t/2) thresholds over mathematical integers
pub fn urgency_spec(target: i128, measure: i128) -> Urg {
    if measure >= (target * 3).div_euclid(2) {
        Urg::High
    } else if measure >= target {
        Urg::Low
    } else {
        Urg::None
    }
}

/// walk from `from` by child links; Ok(ids) when it ends NotFound at latest, Err when told Gone / loops
pub fn walk(c: &CState, from: Uuid) -> Result<Vec<Uuid>, String> {
    let mut out = vec![];
    let mut p = from;
    for _ in 0..=c.versions.len() + 1 {
        match gcv_spec(c, p) {
            Gcv::Found(v) => {
                out.push(v.version_id);
                p = v.version_id;
            }
            Gcv::NotFound => return Ok(out),
            Gcv::Gone => return Err(format!("Gone at {p} after {} steps", out.len())),
            Gcv::NoSuchClient => return Err("no such client".into()),
        }
    }
    Err("walk does not terminate".into())
}
