//! C19 (bounded): a committed corpus of data directories WRITTEN BY THE PINNED TREE (`/verif/fixtures/fx*/`, generated once
//! with `tcss-conform fixtures-gen <dir>`, each with its expected logical content `fx*.json`) is opened with the CURRENT
//! code: every client, version, parent link, payload, latest pointer, snapshot (version, bytes, counter, timestamp in
//! whole seconds) must be served exactly as recorded, and new versions / snapshots can be appended to the old chains.
//! This samples histories; it proves nothing.
use crate::absfn;
use crate::model::*;
use serde_json::{json, Value};
use std::path::{Path, PathBuf};
use taskchampion_sync_server_core::{AddVersionResult, GetVersionResult, Server, ServerConfig};
use taskchampion_sync_server_storage_sqlite::SqliteStorage;
use uuid::Uuid;

/// deterministic payload: `len` bytes from a seed (all byte values occur, incl. 0x00 / 0xff / invalid UTF-8)
pub fn pat(seed: u8, len: usize) -> Vec<u8> {
    (0..len).map(|i| (i as u8).wrapping_mul(31).wrapping_add(seed).wrapping_add((i >> 8) as u8)).collect()
}

fn copy_dir(from: &Path, to: &Path) -> std::io::Result<()> {
    std::fs::create_dir_all(to)?;
    for e in std::fs::read_dir(from)? {
        let e = e?;
        if e.file_type()?.is_file() {
            std::fs::copy(e.path(), to.join(e.file_name()))?;
        }
    }
    Ok(())
}

struct Gen {
    srv: Server,
    dir: PathBuf,
    expected: Vec<Value>, // per client
}

struct ClientPlan {
    first_parent: Uuid,
    /// (seed, len) per version, in order
    versions: Vec<(u8, usize)>,
    /// snapshot: after how many versions it is uploaded, how many positions behind the latest, (seed, len)
    snapshot: Option<(usize, usize, u8, usize)>,
}

impl Gen {
    fn client(&mut self, plan: &ClientPlan) -> anyhow::Result<()> {
        let cl = Uuid::new_v4();
        {
            let mut t = self.srv.txn(cl)?;
            t.new_client(NIL)?;
            t.commit()?;
        }
        let mut parent = plan.first_parent;
        let mut ids: Vec<Uuid> = vec![];
        let mut vs = vec![];
        let mut snap: Option<Value> = None;
        let mut since = 0u32;
        for (i, (seed, len)) in plan.versions.iter().enumerate() {
            let body = pat(*seed, *len);
            let (r, _) = self.srv.add_version(cl, parent, body)?;
            let v = match r {
                AddVersionResult::Ok(v) => v,
                AddVersionResult::ExpectedParentVersion(p) => anyhow::bail!("generator: conflict, expected {p}"),
            };
            vs.push(json!({"id": v.to_string(), "parent": parent.to_string(), "seed": seed, "len": len}));
            ids.push(v);
            parent = v;
            if snap.is_some() {
                since += 1;
            }
            if let Some((after, behind, sseed, slen)) = plan.snapshot {
                if i + 1 == after {
                    let at = ids[ids.len() - 1 - behind];
                    self.srv.add_snapshot(cl, at, pat(sseed, slen))?;
                    snap = Some(json!({"version": at.to_string(), "seed": sseed, "len": slen}));
                    since = 0;
                }
            }
        }
        // bookkeeping as the pinned tree stored it (timestamp through the pinned tree's own getter)
        let mut t = self.srv.txn(cl)?;
        let c = t.get_client()?.ok_or_else(|| anyhow::anyhow!("generator: client vanished"))?;
        if let (Some(s), Some(cs)) = (snap.as_mut(), c.snapshot.as_ref()) {
            s["versions_since"] = json!(cs.versions_since);
            s["timestamp_s"] = json!(cs.timestamp.timestamp());
            if cs.versions_since != since {
                anyhow::bail!("generator: counter {} != {}", cs.versions_since, since);
            }
        }
        drop(t);
        self.expected.push(json!({"client": cl.to_string(), "first_parent": plan.first_parent.to_string(), "latest": parent.to_string(), "versions": vs, "snapshot": snap}));
        Ok(())
    }
}

/// Writes the corpus (run ONCE, with the conform crate built against the pinned tree; the result is committed).
pub fn generate(out: &Path) -> anyhow::Result<()> {
    std::fs::create_dir_all(out)?;
    let base = Uuid::new_v4();
    let plans: Vec<(&str, bool, Vec<ClientPlan>)> = vec![
        ("fx1-one-client", false, vec![ClientPlan { first_parent: NIL, versions: vec![(1, 1), (2, 3), (3, 17)], snapshot: None }]),
        ("fx2-two-clients-snapshots", false, vec![
            ClientPlan { first_parent: NIL, versions: vec![(4, 1), (5, 4096), (6, 70000), (7, 2), (8, 5), (9, 255), (10, 256), (11, 1000)], snapshot: Some((6, 0, 40, 3000)) },
            ClientPlan { first_parent: base, versions: vec![(12, 10), (13, 20)], snapshot: Some((2, 0, 41, 1)) },
            ClientPlan { first_parent: NIL, versions: vec![], snapshot: None },
        ]),
        ("fx3-large-payloads", false, vec![ClientPlan { first_parent: NIL, versions: vec![(14, 300_000), (15, 262_145), (16, 1)], snapshot: Some((3, 2, 42, 200_000)) }]),
        ("fx4-leftover-wal", true, vec![
            ClientPlan { first_parent: NIL, versions: vec![(17, 100), (18, 5000), (19, 3), (20, 9)], snapshot: Some((3, 1, 43, 777)) },
            ClientPlan { first_parent: base, versions: vec![(21, 64)], snapshot: None },
        ]),
    ];
    for (name, leftover_wal, clients) in plans {
        let work = tempfile::TempDir::new()?;
        let st = SqliteStorage::new(work.path())?;
        // a second connection that stays open: the last connection to close would checkpoint and delete the WAL
        let holder = if leftover_wal { Some(rusqlite::Connection::open(work.path().join("taskchampion-sync-server.sqlite3"))?) } else { None };
        if let Some(h) = &holder {
            let _: i64 = h.query_row("SELECT count(*) FROM clients", [], |r| r.get(0))?;
        }
        let mut g = Gen { srv: Server::new(ServerConfig::default(), st), dir: work.path().to_path_buf(), expected: vec![] };
        for p in &clients {
            g.client(p)?;
        }
        let dest = out.join(name);
        if dest.exists() {
            std::fs::remove_dir_all(&dest)?;
        }
        // copied while the holder is open: the image of a process that was killed (WAL and shm files left behind)
        copy_dir(&g.dir, &dest)?;
        let files: Vec<String> = std::fs::read_dir(&dest)?.filter_map(|e| e.ok()).map(|e| format!("{} ({} bytes)", e.file_name().to_string_lossy(), e.metadata().map(|m| m.len()).unwrap_or(0))).collect();
        std::fs::write(out.join(format!("{name}.json")), serde_json::to_string_pretty(&json!({"fixture": name, "leftover_wal": leftover_wal, "files": files, "clients": g.expected}))?)?;
        drop(holder);
    }
    Ok(())
}

fn u(v: &Value) -> Uuid {
    Uuid::parse_str(v.as_str().unwrap_or("")).unwrap_or(NIL)
}

pub fn leg_fixtures(corpus: &Path) -> Value {
    let mut violations: Vec<Value> = vec![];
    let mut cases = 0usize;
    let mut versions_read = 0usize;
    let mut names = vec![];
    let mut viol = |what: String, fx: &str| {
        if violations.len() < 8 {
            violations.push(json!({"tags": ["C19"], "what": what, "fixture": fx, "trace": [format!("open a copy of /verif/fixtures/{fx} with the current code")]}));
        }
    };
    let mut entries: Vec<PathBuf> = match std::fs::read_dir(corpus) {
        Ok(r) => r.filter_map(|e| e.ok()).map(|e| e.path()).filter(|p| p.extension().map(|x| x == "json").unwrap_or(false)).collect(),
        Err(e) => return json!({"leg": "fixtures", "error": format!("no corpus at {}: {e}", corpus.display()), "violations": []}),
    };
    entries.sort();
    for jf in entries {
        let exp: Value = match std::fs::read_to_string(&jf).ok().and_then(|t| serde_json::from_str(&t).ok()) {
            Some(v) => v,
            None => continue,
        };
        let name = exp["fixture"].as_str().unwrap_or("?").to_string();
        names.push(name.clone());
        let scratch = match tempfile::TempDir::new() {
            Ok(d) => d,
            Err(_) => continue,
        };
        if copy_dir(&corpus.join(&name), scratch.path()).is_err() {
            viol("fixture directory missing".into(), &name);
            continue;
        }
        let st = match SqliteStorage::new(scratch.path()) {
            Ok(s) => s,
            Err(e) => {
                viol(format!("the data directory does not open with the current code: {e:#}"), &name);
                continue;
            }
        };
        let srv = Server::new(ServerConfig::default(), st);
        for c in exp["clients"].as_array().cloned().unwrap_or_default() {
            cases += 1;
            let cl = u(&c["client"]);
            let vs = c["versions"].as_array().cloned().unwrap_or_default();
            // walk from the base
            let mut parent = u(&c["first_parent"]);
            let mut ok = true;
            for v in &vs {
                let body = pat(v["seed"].as_u64().unwrap_or(0) as u8, v["len"].as_u64().unwrap_or(0) as usize);
                match srv.get_child_version(cl, parent) {
                    Ok(GetVersionResult::Success { version_id, parent_version_id, history_segment }) => {
                        versions_read += 1;
                        if version_id != u(&v["id"]) || parent_version_id != parent || history_segment != body {
                            viol(format!("client {cl}: child of {parent} is served as ({version_id}, parent {parent_version_id}, {} bytes), recorded ({}, parent {parent}, {} bytes)", history_segment.len(), v["id"], body.len()), &name);
                            ok = false;
                            break;
                        }
                        parent = version_id;
                    }
                    other => {
                        viol(format!("client {cl}: child of {parent} is answered {other:?}, recorded version {}", v["id"]), &name);
                        ok = false;
                        break;
                    }
                }
            }
            if !ok {
                continue;
            }
            match srv.get_child_version(cl, parent) {
                Ok(GetVersionResult::NotFound) => {}
                other => viol(format!("client {cl}: the child of the recorded latest version {parent} is answered {other:?} (expected NotFound)"), &name),
            }
            // bookkeeping through the storage getters
            let got = (|| -> anyhow::Result<(Uuid, Option<(Uuid, u32, i64)>)> {
                let mut t = srv.txn(cl)?;
                let c = t.get_client()?.ok_or_else(|| anyhow::anyhow!("client not found"))?;
                Ok((c.latest_version_id, c.snapshot.map(|s| (s.version_id, s.versions_since, s.timestamp.timestamp()))))
            })();
            match got {
                Err(e) => viol(format!("client {cl}: client record unreadable: {e:#}"), &name),
                Ok((latest, snap)) => {
                    if latest != u(&c["latest"]) {
                        viol(format!("client {cl}: latest pointer is {latest}, recorded {}", c["latest"]), &name);
                    }
                    let exp_snap = if c["snapshot"].is_null() { None } else { Some((u(&c["snapshot"]["version"]), c["snapshot"]["versions_since"].as_u64().unwrap_or(0) as u32, c["snapshot"]["timestamp_s"].as_i64().unwrap_or(0))) };
                    if snap != exp_snap {
                        viol(format!("client {cl}: snapshot bookkeeping (version, versions since, timestamp in whole seconds) is {snap:?}, recorded {exp_snap:?}"), &name);
                    }
                }
            }
            match (srv.get_snapshot(cl), c["snapshot"].is_null()) {
                (Ok(None), true) => {}
                (Ok(Some((v, data))), false) => {
                    let body = pat(c["snapshot"]["seed"].as_u64().unwrap_or(0) as u8, c["snapshot"]["len"].as_u64().unwrap_or(0) as usize);
                    if v != u(&c["snapshot"]["version"]) || data != body {
                        viol(format!("client {cl}: snapshot served as ({v}, {} bytes), recorded ({}, {} bytes)", data.len(), c["snapshot"]["version"], body.len()), &name);
                    }
                }
                (other, _) => viol(format!("client {cl}: GetSnapshot answers {:?}, recorded snapshot {}", other.map(|o| o.map(|(v, d)| (v, d.len()))), c["snapshot"]), &name),
            }
            // the old chain can be extended, and the extension does not disturb what was there
            let latest = u(&c["latest"]);
            match srv.add_version(cl, latest, b"appended-by-the-current-code".to_vec()) {
                Ok((AddVersionResult::Ok(nv), _)) => {
                    match srv.get_child_version(cl, latest) {
                        Ok(GetVersionResult::Success { version_id, history_segment, .. }) if version_id == nv && history_segment == b"appended-by-the-current-code".to_vec() => {}
                        other => viol(format!("client {cl}: the version appended to the old chain reads back as {other:?}"), &name),
                    }
                    if let Some(v0) = vs.first() {
                        match srv.get_child_version(cl, u(&c["first_parent"])) {
                            Ok(GetVersionResult::Success { version_id, .. }) if version_id == u(&v0["id"]) => {}
                            other => viol(format!("client {cl}: after appending, the first recorded version is answered {other:?}"), &name),
                        }
                    }
                    if srv.add_snapshot(cl, nv, b"snapshot-by-the-current-code".to_vec()).is_err() {
                        viol(format!("client {cl}: AddSnapshot on the extended old chain fails"), &name);
                    } else {
                        match srv.get_snapshot(cl) {
                            Ok(Some((v, d))) if v == nv && d == b"snapshot-by-the-current-code".to_vec() => {}
                            other => viol(format!("client {cl}: the snapshot stored on the extended old chain reads back as {:?}", other.map(|o| o.map(|(v, d)| (v, d.len())))), &name),
                        }
                    }
                }
                other => viol(format!("client {cl}: AddVersion on the recorded latest version {latest} is answered {other:?}"), &name),
            }
        }
        // nothing else appeared, and the raw tables are still consistent
        if let Ok(raw) = absfn::via_raw_sql(scratch.path()) {
            if !raw.anomalies.is_empty() {
                viol(format!("after opening and extending, the raw tables are inconsistent: {:?}", raw.anomalies), &name);
            }
            let known: Vec<Uuid> = exp["clients"].as_array().map(|a| a.iter().map(|c| u(&c["client"])).collect()).unwrap_or_default();
            for k in raw.db.keys() {
                if !known.contains(k) {
                    viol(format!("a client {k} that the fixture does not contain appeared"), &name);
                }
            }
            for k in &known {
                if let Err(e) = chain_wf(&cs(&raw.db, *k)) {
                    viol(format!("client {k}: chain not well-formed after extension: {e}"), &name);
                }
            }
        }
    }
    let total = violations.len();
    json!({"leg": "fixtures", "cases": cases, "fixtures": names, "versions_read": versions_read, "violations": violations, "violations_total": total,
        "bound": "the committed corpus /verif/fixtures: 4 data directories written by the pinned tree (1-3 clients, nil and non-nil chain base, 0-8 versions, payloads 1 byte to 300000 bytes, snapshots at and behind the latest version, an empty client, one directory with a leftover write-ahead log), each opened once with the current code, read completely, extended by one version and one snapshot"})
}
