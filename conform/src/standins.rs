//! Value-level conformance of the ASSUMED dependency contracts (prelude/actix.rs, prelude/base.rs,
//! prelude/hashmap.rs) against the real crates.  This samples the assumptions; it proves nothing.
use actix_web::body::MessageBody;
use actix_web::http::header::HeaderValue;
use actix_web::{error, HttpMessage, HttpResponse, ResponseError};
use serde_json::{json, Value};
use std::collections::HashMap;
use taskchampion_sync_server_core::{Client, ServerError, Snapshot, Version};
use uuid::Uuid;

fn body_bytes(r: HttpResponse) -> Vec<u8> {
    match r.into_body().try_into_bytes() {
        Ok(b) => b.to_vec(),
        Err(_) => vec![0xde, 0xad],
    }
}

pub fn leg_standins() -> Value {
    let mut cases = 0usize;
    let mut violations: Vec<Value> = vec![];
    let mut check = |name: &str, ok: bool, detail: String| {
        cases += 1;
        if !ok && violations.len() < 10 {
            violations.push(json!({"tags": ["*"], "what": format!("assumed dependency contract `{name}` does not hold on the real crate: {detail}"), "trace": []}));
        }
    };
    // A9: response builders
    let r = HttpResponse::Ok().finish();
    check("HttpResponse::Ok", r.status().as_u16() == 200 && r.headers().is_empty(), format!("{:?}", r.status()));
    let r = HttpResponse::Conflict().finish();
    check("HttpResponse::Conflict", r.status().as_u16() == 409, format!("{:?}", r.status()));
    let mut rb = HttpResponse::Ok();
    rb.append_header(("X-Version-Id", "abc".to_string()));
    rb.append_header(("X-Snapshot-Request", "urgency=low"));
    let r = rb.finish();
    check("append_header", r.headers().len() == 2 && r.headers().get("X-Version-Id").map(|v| v.as_bytes()) == Some(b"abc".as_slice()) && r.headers().get("x-snapshot-request").map(|v| v.as_bytes()) == Some(b"urgency=low".as_slice()), format!("{:?}", r.headers()));
    let r = HttpResponse::Ok().content_type("application/vnd.taskchampion.snapshot").append_header(("X-Version-Id", "v".to_string())).body(vec![0u8, 255, 7]);
    check("content_type/body", r.headers().get("content-type").map(|v| v.as_bytes()) == Some(b"application/vnd.taskchampion.snapshot".as_slice()) && r.status() == 200, format!("{:?}", r.headers()));
    check("body(Vec<u8>)", body_bytes(r) == vec![0u8, 255, 7], "body bytes differ".into());
    let r = HttpResponse::Ok().body("");
    check("body(\"\")", body_bytes(r).is_empty(), "non-empty".into());
    // A9: error constructors
    for (name, e, code) in [
        ("ErrorBadRequest", error::ErrorBadRequest("x"), 400u16),
        ("ErrorNotFound", error::ErrorNotFound("x"), 404),
        ("ErrorGone", error::ErrorGone("x"), 410),
        ("ErrorForbidden", error::ErrorForbidden("x"), 403),
        ("ErrorInternalServerError", error::ErrorInternalServerError("x"), 500),
    ] {
        check(name, e.as_response_error().status_code().as_u16() == code && e.error_response().status().as_u16() == code, format!("{}", e.as_response_error().status_code()));
    }
    // A9: PayloadError is a 4xx
    for pe in [actix_web::error::PayloadError::Overflow, actix_web::error::PayloadError::EncodingCorrupted, actix_web::error::PayloadError::UnknownLength, actix_web::error::PayloadError::Incomplete(None)] {
        let s = pe.status_code().as_u16();
        check("PayloadError status is 4xx", (400..500).contains(&s), format!("{s}"));
        let e: actix_web::Error = pe.into();
        let s = e.as_response_error().status_code().as_u16();
        check("From<PayloadError> for Error keeps a 4xx", (400..500).contains(&s), format!("{s}"));
    }
    // A9: HeaderValue::to_str is Ok exactly for visible ASCII (+ space / tab), then the text is the bytes
    for b in 0u16..=255 {
        let bytes = vec![b'a', b as u8, b'z'];
        if let Ok(hv) = HeaderValue::from_bytes(&bytes) {
            let visible = (32..127).contains(&(b as u8)) || b as u8 == b'\t';
            match hv.to_str() {
                Ok(s) => check("HeaderValue::to_str Ok => text is the bytes", visible && s.as_bytes() == bytes.as_slice(), format!("byte {b}")),
                Err(_) => check("HeaderValue::to_str Err => not visible ASCII", !visible, format!("byte {b}")),
            }
        }
    }
    // A9: HttpMessage::content_type
    let req = actix_web::test::TestRequest::default().to_http_request();
    check("content_type() of a request without the header is \"\"", req.content_type() == "", req.content_type().to_string());
    let req = actix_web::test::TestRequest::default().insert_header(("Content-Type", "application/vnd.taskchampion.snapshot; charset=x")).to_http_request();
    check("content_type() is the essence", req.content_type() == "application/vnd.taskchampion.snapshot", req.content_type().to_string());
    check("headers().get absent", req.headers().get("X-Client-Id").is_none(), "present".into());
    // A9: BytesMut
    let mut b = actix_web::web::BytesMut::new();
    check("BytesMut::new is empty", b.is_empty() && b.len() == 0, "".into());
    b.extend_from_slice(&actix_web::web::Bytes::from(vec![1u8, 2]));
    b.extend_from_slice(&actix_web::web::Bytes::from(vec![3u8]));
    check("extend_from_slice concatenates", b.to_vec() == vec![1, 2, 3] && b.len() == 3, format!("{:?}", b.to_vec()));
    let s = b.split();
    check("split returns everything and leaves it empty", s.to_vec() == vec![1, 2, 3] && b.is_empty(), format!("{:?} {:?}", s.to_vec(), b.to_vec()));
    check("freeze keeps the bytes", s.freeze().to_vec() == vec![1, 2, 3], "".into());
    // A11: uuid
    check("Uuid::nil is 0", Uuid::nil().as_u128() == 0, "".into());
    for _ in 0..200 {
        let u = Uuid::new_v4();
        check("new_v4 is not nil / is version 4", !u.is_nil() && u.get_version_num() == 4, u.to_string());
        check("parse_str(to_string(u)) == u", Uuid::parse_str(&u.to_string()).ok() == Some(u), u.to_string());
    }
    // A6: thiserror #[from]
    let e: ServerError = anyhow::anyhow!("boom").into();
    check("From<anyhow::Error> for ServerError is Other", matches!(e, ServerError::Other(_)), format!("{e:?}"));
    // A2: derived Clone, Option::replace, HashMap::get_mut
    let snap = Snapshot { version_id: Uuid::new_v4(), timestamp: chrono::Utc::now(), versions_since: 7 };
    let c = Client { latest_version_id: Uuid::new_v4(), snapshot: Some(snap.clone()) };
    check("derived Clone of Client/Snapshot returns an equal value", c.clone() == c && snap.clone() == snap, "".into());
    let v = Version { version_id: Uuid::new_v4(), parent_version_id: Uuid::nil(), history_segment: vec![0, 255, 1] };
    check("derived Clone of Version returns an equal value", v.clone() == v, "".into());
    let mut o = Some(1);
    let old = o.replace(2);
    check("Option::replace", old == Some(1) && o == Some(2), "".into());
    check("Option::filter", Some(3).filter(|x| *x > 2) == Some(3) && Some(1).filter(|x| *x > 2).is_none() && None::<i32>.filter(|_| true).is_none(), "".into());
    check("Result::unwrap_or", Ok::<i32, ()>(3).unwrap_or(9) == 3 && Err::<i32, ()>(()).unwrap_or(9) == 9, "".into());
    check("Option::copied / Option::or", Some(&5).copied() == Some(5) && None::<&i32>.copied().is_none() && Some(1).or(Some(2)) == Some(1) && None.or(Some(2)) == Some(2), "".into());
    check("bool::then_some", true.then_some(7) == Some(7) && false.then_some(7).is_none(), "".into());
    let mut m: HashMap<(u8, u8), u32> = HashMap::new();
    m.insert((1, 1), 10);
    m.insert((1, 2), 20);
    if let Some(x) = m.get_mut(&(1, 1)) {
        *x += 1;
    }
    check("HashMap::get_mut changes only that entry", m.get(&(1, 1)) == Some(&11) && m.get(&(1, 2)) == Some(&20) && m.len() == 2 && m.get_mut(&(9, 9)).is_none(), format!("{m:?}"));
    // A7: derived Ord (also discharged by Kani)
    use taskchampion_sync_server_core::SnapshotUrgency as U;
    check("derived Ord on SnapshotUrgency", U::None < U::Low && U::Low < U::High && std::cmp::max(U::Low, U::High) == U::High && std::cmp::max(U::None, U::None) == U::None, "".into());
    // A10: chrono
    let t0 = chrono::Utc::now();
    check("(now - t).num_days() of a fresh timestamp is 0", (chrono::Utc::now() - t0).num_days() == 0, "".into());
    // A5: rusqlite as units U5 / U6 assume it (contracts/u6.vspec: Bind / FromCol renderings, Row::get by position and by name,
    // query_row "Ok only as the closure's answer on a fetched row", optional(), a BLOB read as exactly its bytes) and std's transpose
    {
        use rusqlite::{params, Connection, OptionalExtension};
        let con = Connection::open_in_memory().expect("in-memory database");
        let ty = |con: &Connection, p: &dyn rusqlite::ToSql| -> (String, String) {
            con.query_row("SELECT typeof(?1), quote(?1)", [p], |r| Ok((r.get::<_, String>(0)?, r.get::<_, String>(1)?))).unwrap_or(("?".into(), "?".into()))
        };
        for v in [0i64, 1, -1, 1_700_000_000, i64::MAX, i64::MIN] {
            let t = ty(&con, &v);
            check("Bind for i64 is INTEGER with that value", t.0 == "integer" && t.1 == v.to_string(), format!("{v}: {t:?}"));
        }
        for v in [0u32, 1, 7, u32::MAX] {
            let t = ty(&con, &v);
            check("Bind for u32 is INTEGER with that value", t.0 == "integer" && t.1 == v.to_string(), format!("{v}: {t:?}"));
        }
        for v in [vec![], vec![0u8], vec![0xff, 0, 0x31, 0x32], b"12345".to_vec(), vec![0xc3, 0x28], (0..=255u8).collect::<Vec<u8>>()] {
            let hex: String = v.iter().map(|b| format!("{b:02X}")).collect();
            let t = ty(&con, &v);
            check("Bind for Vec<u8> is a BLOB with exactly the bytes", t.0 == "blob" && t.1 == format!("X'{hex}'"), format!("{v:?}: {t:?}"));
            let back: rusqlite::Result<Vec<u8>> = con.query_row("SELECT ?1 AS payload", params![v], |r| r.get("payload"));
            check("a BLOB column is read as a Vec<u8> holding exactly its bytes (vec_of)", back.as_ref().ok() == Some(&v), format!("{v:?}: {back:?}"));
        }
        let t = ty(&con, &"00000000-0000-0000-0000-000000000000".to_string());
        check("an owned String (StoredUuid's ToSqlOutput) is bound as TEXT", t.0 == "text", format!("{t:?}"));
        // FromCol: decoding by storage class
        let r: rusqlite::Result<i64> = con.query_row("SELECT 5", [], |r| r.get(0));
        check("FromCol i64 from INTEGER", r.as_ref().ok() == Some(&5), format!("{r:?}"));
        let r: rusqlite::Result<i64> = con.query_row("SELECT 'x'", [], |r| r.get(0));
        check("FromCol i64 from TEXT is an error", r.is_err(), format!("{r:?}"));
        let r: rusqlite::Result<u32> = con.query_row("SELECT 4294967295", [], |r| r.get(0));
        check("FromCol u32 at u32::MAX", r.as_ref().ok() == Some(&u32::MAX), format!("{r:?}"));
        let r: rusqlite::Result<u32> = con.query_row("SELECT 4294967296", [], |r| r.get(0));
        check("FromCol u32 above range is an error", r.is_err(), format!("{r:?}"));
        let r: rusqlite::Result<u32> = con.query_row("SELECT -1", [], |r| r.get(0));
        check("FromCol u32 below range is an error", r.is_err(), format!("{r:?}"));
        let r: rusqlite::Result<Option<i64>> = con.query_row("SELECT NULL", [], |r| r.get(0));
        check("FromCol Option<T> from NULL is None", matches!(r, Ok(None)), format!("{r:?}"));
        let r: rusqlite::Result<Option<i64>> = con.query_row("SELECT 9", [], |r| r.get(0));
        check("FromCol Option<T> from a value is Some", matches!(r, Ok(Some(9))), format!("{r:?}"));
        let r: rusqlite::Result<Option<i64>> = con.query_row("SELECT 'x'", [], |r| r.get(0));
        check("FromCol Option<T> from an ill-typed value is an error", r.is_err(), format!("{r:?}"));
        let r: rusqlite::Result<Vec<u8>> = con.query_row("SELECT 'text'", [], |r| r.get(0));
        check("FromCol Vec<u8> from TEXT is an error", r.is_err(), format!("{r:?}"));
        let r: rusqlite::Result<Vec<u8>> = con.query_row("SELECT NULL", [], |r| r.get(0));
        check("FromCol Vec<u8> from NULL is an error", r.is_err(), format!("{r:?}"));
        // Row::get by position / by name
        let r: rusqlite::Result<(i64, i64, i64, i64)> = con.query_row("SELECT 1 AS a, 2 AS b", [], |r| Ok((r.get(0)?, r.get(1)?, r.get("a")?, r.get("b")?)));
        check("Row::get by position and by name address the selected columns", matches!(r, Ok((1, 2, 1, 2))), format!("{r:?}"));
        let r: rusqlite::Result<i64> = con.query_row("SELECT 1 AS a", [], |r| r.get("nope"));
        check("Row::get with an unknown name is an error", r.is_err(), format!("{r:?}"));
        let r: rusqlite::Result<i64> = con.query_row("SELECT 1 AS a", [], |r| r.get(3));
        check("Row::get with a position out of range is an error", r.is_err(), format!("{r:?}"));
        // query_row / optional
        con.execute_batch("CREATE TABLE t (k TEXT, v INTEGER); INSERT INTO t VALUES ('a', 1), ('a', 2), ('b', 3);").expect("set-up");
        let r: rusqlite::Result<i64> = con.query_row("SELECT v FROM t WHERE k = ? ORDER BY v", ["a"], |r| r.get(0));
        check("query_row answers with the closure's result on the first row fetched with the bound values", matches!(r, Ok(1)), format!("{r:?}"));
        let r: rusqlite::Result<i64> = con.query_row("SELECT v FROM t WHERE k = ?", ["zz"], |r| r.get(0));
        check("query_row without a row is an error", r.is_err(), format!("{r:?}"));
        let o = con.query_row("SELECT v FROM t WHERE k = ?", ["zz"], |r| r.get::<_, i64>(0)).optional();
        check("optional() turns 'no rows' into Ok(None)", matches!(o, Ok(None)), format!("{o:?}"));
        let o = con.query_row("SELECT v FROM t WHERE k = ?", ["b"], |r| r.get::<_, i64>(0)).optional();
        check("optional() keeps Ok(x) as Ok(Some(x))", matches!(o, Ok(Some(3))), format!("{o:?}"));
        let o = con.query_row("SELECT k FROM t WHERE k = ?", ["b"], |r| r.get::<_, i64>(0)).optional();
        check("optional() keeps an error of the mapping closure an error", o.is_err(), format!("{o:?}"));
        let o = con.query_row("SELECT nope FROM t", [], |r| r.get::<_, i64>(0)).optional();
        check("optional() keeps an SQL error an error", o.is_err(), format!("{o:?}"));
        let e = con.execute("INSERT INTO nope VALUES (1)", []);
        check("execute of a failing statement is an error", e.is_err(), format!("{e:?}"));
        let e = con.execute("INSERT INTO t VALUES (?, ?)", params!["c", 4]);
        check("execute of a succeeding statement is Ok", matches!(e, Ok(1)), format!("{e:?}"));
    }
    check("Option::<Result>::transpose", None::<Result<i32, ()>>.transpose() == Ok(None) && Some(Ok::<i32, ()>(1)).transpose() == Ok(Some(1)) && Some(Err::<i32, i32>(2)).transpose() == Err(2), "".into());
    // A10 (U6): chrono's whole-second conversions
    {
        use chrono::TimeZone;
        for sx in [0i64, 1, 1_700_000_000, -5] {
            let t = chrono::Utc.timestamp_opt(sx, 0);
            check("Utc.timestamp_opt(s, 0) is Single and .timestamp() gives s back", matches!(t, chrono::LocalResult::Single(d) if d.timestamp() == sx), format!("{sx}"));
        }
        let d = chrono::Utc.timestamp_millis_opt(1_234_567).unwrap();
        check("timestamp() drops sub-second parts; timestamp_millis() is 1000 times finer", d.timestamp() == 1_234 && d.timestamp_millis() == 1_234_567, format!("{d:?}"));
    }
    // A14 (U4): Iterator::copied / cloned / collect as the clap stand-ins assume them
    {
        let ids = vec![Uuid::new_v4(), Uuid::new_v4(), Uuid::nil()];
        let set: std::collections::HashSet<Uuid> = ids.iter().copied().collect();
        check("copied().collect::<HashSet>() holds exactly the values", set.len() == 3 && ids.iter().all(|i| set.contains(i)), format!("{set:?}"));
        let strs = vec!["b".to_string(), "a".to_string(), "b".to_string()];
        let v: Vec<String> = strs.iter().cloned().collect();
        check("cloned().collect::<Vec>() keeps all values in order", v == strs, format!("{v:?}"));
    }
    json!({"leg": "standins", "cases": cases, "violations": violations,
        "bound": "one or a few sampled values per assumed dependency contract (all 256 byte values for HeaderValue::to_str; 200 random ids for the uuid text round trip); assumptions remain assumptions"})
}
