//! Value-level conformance of the ASSUMED dependency contracts (prelude/actix.rs, prelude/base.rs,
//! prelude/hashmap.rs) against the real crates.  This samples the assumptions; it proves nothing.
use actix_web::body::MessageBody;
use actix_web::http::header::HeaderValue;
use actix_web::{error, HttpMessage, HttpResponse, ResponseError};
use serde_json::{json, Value};
use std::collections::HashMap;
use taskchampion_sync_server_core::{Client, ServerError, Snapshot, Version};
use uuid::Uuid;

fn body_bytes(r: HttpResponse) -> Vec<u8> {
    match r.into_body().try_into_bytes() {
        Ok(b) => b.to_vec(),
        Err(_) => vec![0xde, 0xad],
    }
}

pub fn leg_standins() -> Value {
    let mut cases = 0usize;
    let mut violations: Vec<Value> = vec![];
    let mut check = |name: &str, ok: bool, detail: String| {
        cases += 1;
        if !ok && violations.len() < 10 {
            violations.push(json!({"tags": ["*"], "what": format!("assumed dependency contract `{name}` does not hold on the real crate: {detail}"), "trace": []}));
        }
    };
    // A9: response builders
    let r = HttpResponse::Ok().finish();
    check("HttpResponse::Ok", r.status().as_u16() == 200 && r.headers().is_empty(), format!("{:?}", r.status()));
    let r = HttpResponse::Conflict().finish();
    check("HttpResponse::Conflict", r.status().as_u16() == 409, format!("{:?}", r.status()));
    let mut rb = HttpResponse::Ok();
    rb.append_header(("X-Version-Id", "abc".to_string()));
    rb.append_header(("X-Snapshot-Request", "urgency=low"));
    let r = rb.finish();
    check("append_header", r.headers().len() == 2 && r.headers().get("X-Version-Id").map(|v| v.as_bytes()) == Some(b"abc".as_slice()) && r.headers().get("x-snapshot-request").map(|v| v.as_bytes()) == Some(b"urgency=low".as_slice()), format!("{:?}", r.headers()));
    let r = HttpResponse::Ok().content_type("application/vnd.taskchampion.snapshot").append_header(("X-Version-Id", "v".to_string())).body(vec![0u8, 255, 7]);
    check("content_type/body", r.headers().get("content-type").map(|v| v.as_bytes()) == Some(b"application/vnd.taskchampion.snapshot".as_slice()) && r.status() == 200, format!("{:?}", r.headers()));
    check("body(Vec<u8>)", body_bytes(r) == vec![0u8, 255, 7], "body bytes differ".into());
    let r = HttpResponse::Ok().body("");
    check("body(\"\")", body_bytes(r).is_empty(), "non-empty".into());
    // A9: error constructors
    for (name, e, code) in [
        ("ErrorBadRequest", error::ErrorBadRequest("x"), 400u16),
        ("ErrorNotFound", error::ErrorNotFound("x"), 404),
        ("ErrorGone", error::ErrorGone("x"), 410),
        ("ErrorForbidden", error::ErrorForbidden("x"), 403),
        ("ErrorInternalServerError", error::ErrorInternalServerError("x"), 500),
    ] {
        check(name, e.as_response_error().status_code().as_u16() == code && e.error_response().status().as_u16() == code, format!("{}", e.as_response_error().status_code()));
    }
    // A9: PayloadError is a 4xx
    for pe in [actix_web::error::PayloadError::Overflow, actix_web::error::PayloadError::EncodingCorrupted, actix_web::error::PayloadError::UnknownLength, actix_web::error::PayloadError::Incomplete(None)] {
        let s = pe.status_code().as_u16();
        check("PayloadError status is 4xx", (400..500).contains(&s), format!("{s}"));
        let e: actix_web::Error = pe.into();
        let s = e.as_response_error().status_code().as_u16();
        check("From<PayloadError> for Error keeps a 4xx", (400..500).contains(&s), format!("{s}"));
    }
    // A9: HeaderValue::to_str is Ok exactly for visible ASCII (+ space / tab), then the text is the bytes
    for b in 0u16..=255 {
        let bytes = vec![b'a', b as u8, b'z'];
        if let Ok(hv) = HeaderValue::from_bytes(&bytes) {
            let visible = (32..127).contains(&(b as u8)) || b as u8 == b'\t';
            match hv.to_str() {
                Ok(s) => check("HeaderValue::to_str Ok => text is the bytes", visible && s.as_bytes() == bytes.as_slice(), format!("byte {b}")),
                Err(_) => check("HeaderValue::to_str Err => not visible ASCII", !visible, format!("byte {b}")),
            }
        }
    }
    // A9: HttpMessage::content_type
    let req = actix_web::test::TestRequest::default().to_http_request();
    check("content_type() of a request without the header is \"\"", req.content_type() == "", req.content_type().to_string());
    let req = actix_web::test::TestRequest::default().insert_header(("Content-Type", "application/vnd.taskchampion.snapshot; charset=x")).to_http_request();
    check("content_type() is the essence", req.content_type() == "application/vnd.taskchampion.snapshot", req.content_type().to_string());
    check("headers().get absent", req.headers().get("X-Client-Id").is_none(), "present".into());
    // A9: BytesMut
    let mut b = actix_web::web::BytesMut::new();
    check("BytesMut::new is empty", b.is_empty() && b.len() == 0, "".into());
    b.extend_from_slice(&actix_web::web::Bytes::from(vec![1u8, 2]));
    b.extend_from_slice(&actix_web::web::Bytes::from(vec![3u8]));
    check("extend_from_slice concatenates", b.to_vec() == vec![1, 2, 3] && b.len() == 3, format!("{:?}", b.to_vec()));
    let s = b.split();
    check("split returns everything and leaves it empty", s.to_vec() == vec![1, 2, 3] && b.is_empty(), format!("{:?} {:?}", s.to_vec(), b.to_vec()));
    check("freeze keeps the bytes", s.freeze().to_vec() == vec![1, 2, 3], "".into());
    // A11: uuid
    check("Uuid::nil is 0", Uuid::nil().as_u128() == 0, "".into());
    for _ in 0..200 {
        let u = Uuid::new_v4();
        check("new_v4 is not nil / is version 4", !u.is_nil() && u.get_version_num() == 4, u.to_string());
        check("parse_str(to_string(u)) == u", Uuid::parse_str(&u.to_string()).ok() == Some(u), u.to_string());
    }
    // A6: thiserror #[from]
    let e: ServerError = anyhow::anyhow!("boom").into();
    check("From<anyhow::Error> for ServerError is Other", matches!(e, ServerError::Other(_)), format!("{e:?}"));
    // A2: derived Clone, Option::replace, HashMap::get_mut
    let snap = Snapshot { version_id: Uuid::new_v4(), timestamp: chrono::Utc::now(), versions_since: 7 };
    let c = Client { latest_version_id: Uuid::new_v4(), snapshot: Some(snap.clone()) };
    check("derived Clone of Client/Snapshot returns an equal value", c.clone() == c && snap.clone() == snap, "".into());
    let v = Version { version_id: Uuid::new_v4(), parent_version_id: Uuid::nil(), history_segment: vec![0, 255, 1] };
    check("derived Clone of Version returns an equal value", v.clone() == v, "".into());
    let mut o = Some(1);
    let old = o.replace(2);
    check("Option::replace", old == Some(1) && o == Some(2), "".into());
    check("Option::filter", Some(3).filter(|x| *x > 2) == Some(3) && Some(1).filter(|x| *x > 2).is_none() && None::<i32>.filter(|_| true).is_none(), "".into());
    check("Result::unwrap_or", Ok::<i32, ()>(3).unwrap_or(9) == 3 && Err::<i32, ()>(()).unwrap_or(9) == 9, "".into());
    check("Option::copied / Option::or", Some(&5).copied() == Some(5) && None::<&i32>.copied().is_none() && Some(1).or(Some(2)) == Some(1) && None.or(Some(2)) == Some(2), "".into());
    check("bool::then_some", true.then_some(7) == Some(7) && false.then_some(7).is_none(), "".into());
    let mut m: HashMap<(u8, u8), u32> = HashMap::new();
    m.insert((1, 1), 10);
    m.insert((1, 2), 20);
    if let Some(x) = m.get_mut(&(1, 1)) {
        *x += 1;
    }
    check("HashMap::get_mut changes only that entry", m.get(&(1, 1)) == Some(&11) && m.get(&(1, 2)) == Some(&20) && m.len() == 2 && m.get_mut(&(9, 9)).is_none(), format!("{m:?}"));
    // A7: derived Ord (also discharged by Kani)
    use taskchampion_sync_server_core::SnapshotUrgency as U;
    check("derived Ord on SnapshotUrgency", U::None < U::Low && U::Low < U::High && std::cmp::max(U::Low, U::High) == U::High && std::cmp::max(U::None, U::None) == U::None, "".into());
    // A10: chrono
    let t0 = chrono::Utc::now();
    check("(now - t).num_days() of a fresh timestamp is 0", (chrono::Utc::now() - t0).num_days() == 0, "".into());
    json!({"leg": "standins", "cases": cases, "violations": violations,
        "bound": "one or a few sampled values per assumed dependency contract (all 256 byte values for HeaderValue::to_str; 200 random ids for the uuid text round trip); assumptions remain assumptions"})
}
