//! C03 (bounded): a complete competing request B runs between two transactions of request A
//! (A entered through the real HTTP handlers, B through the library on the same backend).
//! Deterministic, no threads: `InterleaveStorage` fires B right before A's n-th transaction.
use crate::absfn;
use crate::model::*;
use crate::wrappers::{InterleaveStorage, Shared};
use actix_web::{test, App};
use serde_json::{json, Value};
use std::sync::{Arc, Mutex};
use taskchampion_sync_server::WebServer;
use taskchampion_sync_server_core::{AddVersionResult, InMemoryStorage, Server, ServerConfig, ServerError, Storage, NIL_VERSION_ID};
use taskchampion_sync_server_storage_sqlite::SqliteStorage;
use uuid::Uuid;

#[derive(Clone, Copy, Debug, PartialEq, Eq)]
pub enum Req {
    /// parent = an id that is no version of anybody (acceptable only as the first parent of an empty client)
    AddVersionOther,
    AddVersionNil,
    AddVersionLatest,
    AddSnapLatest,
    AddSnapPrev,
    GetChild,
    GetSnap,
}

#[derive(Clone, Debug, PartialEq, Eq)]
pub enum Class {
    Accepted,
    /// 409 naming this id as the expected parent
    Conflict(Uuid),
    Ok,
    NotFound,
    Gone,
    Found,
    ServerError(u16),
    Other(u16),
}

/// the parent used by `AddVersionOther`: request A (over HTTP) and request B (library) name DIFFERENT unrelated ids
fn other_parent(is_a: bool) -> Uuid {
    if is_a { Uuid::from_u128(0x0a0a_0a0a_0a0a_4a0a_8a0a_0a0a_0a0a_0a0a) } else { Uuid::from_u128(0x0b0b_0b0b_0b0b_4b0b_8b0b_0b0b_0b0b_0b0b) }
}

/// a response class with the id named by a conflict replaced by its ROLE in the given before/after states
fn norm(c: &Class, before: &CState, fin: &CState) -> String {
    match c {
        Class::Conflict(n) => {
            let role = if *n == NIL { "nil" } else if *n == before.latest { "latest-before" } else if before.versions.contains_key(n) { "older-version" } else if fin.versions.contains_key(n) { "version-accepted-by-these-requests" } else { "an id that is no version" };
            format!("Conflict(names {role})")
        }
        other => format!("{other:?}"),
    }
}

/// the library-level equivalent of a complete request (what the handler does when nobody interferes)
fn lib_request(server: &Server, cl: Uuid, r: Req, latest: Uuid, prev: Uuid) -> Class {
    match r {
        Req::AddVersionOther | Req::AddVersionNil | Req::AddVersionLatest => {
            let p = if r == Req::AddVersionNil { NIL_VERSION_ID } else if r == Req::AddVersionOther { other_parent(false) } else { latest };
            loop {
                match server.add_version(cl, p, b"B".to_vec()) {
                    Ok((AddVersionResult::Ok(_), _)) => return Class::Accepted,
                    Ok((AddVersionResult::ExpectedParentVersion(l), _)) => return Class::Conflict(l),
                    Err(ServerError::NoSuchClient) => {
                        let mut t = server.txn(cl).unwrap();
                        if t.get_client().unwrap().is_none() {
                            t.new_client(NIL_VERSION_ID).unwrap();
                            t.commit().unwrap();
                        }
                    }
                    Err(_) => return Class::ServerError(500),
                }
            }
        }
        Req::AddSnapLatest | Req::AddSnapPrev => {
            let v = if r == Req::AddSnapLatest { latest } else { prev };
            match server.add_snapshot(cl, v, b"SB".to_vec()) {
                Ok(()) => Class::Ok,
                Err(ServerError::NoSuchClient) => Class::NotFound,
                Err(_) => Class::ServerError(500),
            }
        }
        Req::GetChild => match server.get_child_version(cl, latest) {
            Ok(taskchampion_sync_server_core::GetVersionResult::Success { .. }) => Class::Found,
            Ok(taskchampion_sync_server_core::GetVersionResult::NotFound) => Class::NotFound,
            Ok(taskchampion_sync_server_core::GetVersionResult::Gone) => Class::Gone,
            Err(ServerError::NoSuchClient) => Class::NotFound,
            Err(_) => Class::ServerError(500),
        },
        Req::GetSnap => match server.get_snapshot(cl) {
            Ok(Some(_)) => Class::Found,
            Ok(None) => Class::NotFound,
            Err(ServerError::NoSuchClient) => Class::NotFound,
            Err(_) => Class::ServerError(500),
        },
    }
}

/// what the model says a request does, as a response class and a new state (ids abstracted by `fresh`)
fn model_request(c: &CState, r: Req, latest: Uuid, prev: Uuid, fresh: Uuid, tag: &[u8]) -> (Class, CState) {
    match r {
        Req::AddVersionOther | Req::AddVersionNil | Req::AddVersionLatest => {
            let p = if r == Req::AddVersionNil { NIL } else if r == Req::AddVersionOther { other_parent(tag == b"A") } else { latest };
            let c0 = if c.exists { c.clone() } else { new_client_spec(NIL) };
            if accept(&c0, p) {
                (Class::Accepted, add_version_spec(&c0, fresh, p, tag))
            } else {
                (Class::Conflict(c0.latest), c0)
            }
        }
        Req::AddSnapLatest | Req::AddSnapPrev => {
            let v = if r == Req::AddSnapLatest { latest } else { prev };
            if !c.exists {
                return (Class::NotFound, c.clone());
            }
            if snap_should_accept(c, v) {
                (Class::Ok, set_snapshot_spec(c, v, 0, tag))
            } else {
                (Class::Ok, c.clone())
            }
        }
        Req::GetChild => (
            match gcv_spec(c, latest) {
                Gcv::Found(_) => Class::Found,
                Gcv::NotFound | Gcv::NoSuchClient => Class::NotFound,
                Gcv::Gone => Class::Gone,
            },
            c.clone(),
        ),
        Req::GetSnap => (if c.snapshot.is_some() { Class::Found } else { Class::NotFound }, c.clone()),
    }
}

/// shape of a client state, independent of the random ids
fn shape(c: &CState) -> String {
    let n = chain_wf(c).map(|n| n as i64).unwrap_or(-1);
    let snap_pos = match &c.snapshot {
        None => -1i64,
        Some(s) => (0..=c.versions.len()).find(|k| back(c, *k) == s.version_id).map(|k| k as i64).unwrap_or(-2),
    };
    let payloads: Vec<String> = (0..c.versions.len()).map(|k| c.versions.get(&back(c, k)).map(|v| String::from_utf8_lossy(&v.history_segment).to_string()).unwrap_or("?".into())).collect();
    format!("exists={} chain={} snap_pos={} snap_data={:?} payloads(latest first)={:?}", c.exists, n, snap_pos, c.snapshot_data.as_ref().map(|d| String::from_utf8_lossy(d).to_string()), payloads)
}

async fn http_request<S, B>(app: &S, cl: Uuid, r: Req, latest: Uuid, prev: Uuid) -> Class
where
    S: actix_web::dev::Service<actix_http::Request, Response = actix_web::dev::ServiceResponse<B>, Error = actix_web::Error>,
    B: actix_web::body::MessageBody,
{
    let req = match r {
        Req::AddVersionOther | Req::AddVersionNil | Req::AddVersionLatest => {
            let p = if r == Req::AddVersionNil { NIL_VERSION_ID } else if r == Req::AddVersionOther { other_parent(true) } else { latest };
            test::TestRequest::post().uri(&format!("/v1/client/add-version/{p}")).insert_header(("Content-Type", "application/vnd.taskchampion.history-segment")).set_payload(b"A".to_vec())
        }
        Req::AddSnapLatest | Req::AddSnapPrev => {
            let v = if r == Req::AddSnapLatest { latest } else { prev };
            test::TestRequest::post().uri(&format!("/v1/client/add-snapshot/{v}")).insert_header(("Content-Type", "application/vnd.taskchampion.snapshot")).set_payload(b"SA".to_vec())
        }
        Req::GetChild => test::TestRequest::get().uri(&format!("/v1/client/get-child-version/{latest}")),
        Req::GetSnap => test::TestRequest::get().uri("/v1/client/snapshot"),
    }
    .insert_header(("X-Client-Id", cl.to_string()))
    .to_request();
    let (status, named) = match test::try_call_service(app, req).await {
        Ok(resp) => (resp.status().as_u16(), resp.headers().get("X-Parent-Version-Id").and_then(|v| v.to_str().ok()).and_then(|t| Uuid::parse_str(t).ok())),
        Err(e) => (e.as_response_error().status_code().as_u16(), None),
    };
    match (r, status) {
        (Req::AddVersionOther | Req::AddVersionNil | Req::AddVersionLatest, 200) => Class::Accepted,
        (Req::AddVersionOther | Req::AddVersionNil | Req::AddVersionLatest, 409) => Class::Conflict(named.unwrap_or(Uuid::from_u128(0xdead))),
        (Req::AddSnapLatest | Req::AddSnapPrev, 200) => Class::Ok,
        (Req::GetChild | Req::GetSnap, 200) => Class::Found,
        (_, 404) => Class::NotFound,
        (_, 410) => Class::Gone,
        (_, s) if s >= 500 => Class::ServerError(s),
        (_, s) => Class::Other(s),
    }
}

pub fn leg_interleave(thorough: bool) -> Value {
    let mut cases = 0usize;
    let mut fired = 0usize;
    let mut violations: Vec<Value> = vec![];
    let mut samples: Vec<Value> = vec![];
    let reqs = [Req::AddVersionOther, Req::AddVersionNil, Req::AddVersionLatest, Req::AddSnapLatest, Req::AddSnapPrev, Req::GetChild, Req::GetSnap];
    let chain_lens: &[usize] = if thorough { &[0, 1, 3, 6] } else { &[0, 3] };
    let sys = actix_rt::System::new();
    for backend in ["in-memory", "sqlite", "sqlite-two-instances"] {
        for &(pre_len, pre_snap) in chain_lens.iter().flat_map(|l| if *l >= 3 { vec![(*l, false), (*l, true)] } else { vec![(*l, false)] }).collect::<Vec<_>>().iter() {
            // pre_len == 0: the client has never been seen (the very first requests for a new client);
            // pre_snap: the client already holds a snapshot, of the version before the latest
            for &ra in &reqs {
                for &rb in &reqs {
                    for n in 0..4usize {
                        if !thorough && n == 3 {
                            continue;
                        }
                        cases += 1;
                        let cl = Uuid::new_v4();
                        let dir = tempfile::Builder::new().prefix("tcss-il-").tempdir_in(if std::path::Path::new("/dev/shm").is_dir() { "/dev/shm" } else { "/tmp" }).unwrap();
                        let mem = Arc::new(InMemoryStorage::new());
                        let mk = |second: bool| -> Box<dyn Storage> {
                            match backend {
                                "in-memory" => Box::new(Shared(mem.clone())),
                                "sqlite" => Box::new(SqliteStorage::new(dir.path()).unwrap()),
                                _ => {
                                    let _ = second;
                                    Box::new(SqliteStorage::new(dir.path()).unwrap())
                                }
                            }
                        };
                        struct Dyn(Box<dyn Storage>);
                        impl Storage for Dyn {
                            fn txn(&self, c: Uuid) -> anyhow::Result<Box<dyn taskchampion_sync_server_core::StorageTxn + '_>> {
                                self.0.txn(c)
                            }
                        }
                        // history before the two requests
                        let setup = Server::new(ServerConfig::default(), Dyn(mk(false)));
                        let mut latest = NIL_VERSION_ID;
                        let mut prev = NIL_VERSION_ID;
                        if pre_len > 0 {
                            {
                                let mut t = setup.txn(cl).unwrap();
                                t.new_client(NIL_VERSION_ID).unwrap();
                                t.commit().unwrap();
                            }
                            for i in 0..pre_len {
                                match setup.add_version(cl, latest, format!("v{i}").into_bytes()) {
                                    Ok((AddVersionResult::Ok(v), _)) => {
                                        prev = latest;
                                        latest = v;
                                    }
                                    other => panic!("setup failed: {other:?}"),
                                }
                            }
                        }
                        if pre_snap {
                            setup.add_snapshot(cl, prev, b"S0".to_vec()).unwrap();
                        }
                        let mut universe = vec![NIL_VERSION_ID];
                        {
                            // collect ids
                            let mut t = setup.txn(cl).unwrap();
                            let mut u = latest;
                            while u != NIL_VERSION_ID {
                                universe.push(u);
                                u = t.get_version(u).unwrap().map(|v| v.parent_version_id).unwrap_or(NIL_VERSION_ID);
                            }
                        }
                        let probe0 = mk(false);
                        let before = absfn::via_api(probe0.as_ref(), cl, &universe).unwrap();
                        drop(probe0);
                        // B fires right before A's n-th transaction
                        let b_result: Arc<Mutex<Option<Class>>> = Arc::new(Mutex::new(None));
                        let b_server = Arc::new(Server::new(ServerConfig::default(), Dyn(mk(true))));
                        let hook = {
                            let b_result = b_result.clone();
                            let b_server = b_server.clone();
                            Box::new(move |k: usize| {
                                if k == n {
                                    let c = lib_request(&b_server, cl, rb, latest, prev);
                                    *b_result.lock().unwrap() = Some(c);
                                }
                            })
                        };
                        let st = InterleaveStorage { inner: Dyn(mk(false)), count: Mutex::new(0), hook };
                        let web = WebServer::new(ServerConfig::default(), None, st);
                        let class_a = sys.block_on(async {
                            let app = test::init_service(App::new().configure(|sc| web.config(sc))).await;
                            http_request(&app, cl, ra, latest, prev).await
                        });
                        let class_b = b_result.lock().unwrap().clone();
                        let class_b = match class_b {
                            Some(c) => c,
                            None => continue, // A makes fewer than n+1 transactions: nothing interleaved
                        };
                        fired += 1;
                        // final state
                        let probe = mk(false);
                        let mut uni2 = universe.clone();
                        {
                            let mut t = probe.txn(cl).unwrap();
                            if let Some(c) = t.get_client().unwrap() {
                                let mut u = c.latest_version_id;
                                let mut guard = 0;
                                while u != NIL_VERSION_ID && guard < 50 {
                                    if !uni2.contains(&u) {
                                        uni2.push(u);
                                    }
                                    u = t.get_version(u).unwrap().map(|v| v.parent_version_id).unwrap_or(NIL_VERSION_ID);
                                    guard += 1;
                                }
                            }
                        }
                        let mut fin = absfn::via_api(probe.as_ref(), cl, &uni2).unwrap();
                        if backend != "in-memory" {
                            let raw = absfn::via_raw_sql(dir.path()).unwrap();
                            if !raw.anomalies.is_empty() {
                                violations.push(json!({"tags": ["C03", "C01"], "what": format!("after overlapping requests the database has anomalies: {:?}", raw.anomalies),
                                    "scenario": format!("{backend}: client with {pre_len} versions{}; A={ra:?} over HTTP, B={rb:?} runs completely just before A's transaction #{n}", if pre_snap { " and a snapshot of the version before the latest" } else { "" }), "responses": format!("A={class_a:?} B={class_b:?}")}));
                                continue;
                            }
                            fin = cs(&raw.db, cl);
                        }
                        // serial orders
                        let fa = Uuid::from_u128(0xA);
                        let fb = Uuid::from_u128(0xB);
                        let (a1, s1) = model_request(&before, ra, latest, prev, fa, b"A");
                        let (b1, s1) = {
                            let (b1, s) = model_request(&s1, rb, latest, prev, fb, if matches!(rb, Req::AddSnapLatest | Req::AddSnapPrev) { b"SB" } else { b"B" });
                            (b1, s)
                        };
                        let (b2, s2) = model_request(&before, rb, latest, prev, fb, if matches!(rb, Req::AddSnapLatest | Req::AddSnapPrev) { b"SB" } else { b"B" });
                        let (a2, s2) = model_request(&s2, ra, latest, prev, fa, b"A");
                        // A's snapshot payload is "SA"
                        let fix = |mut s: CState, r: Req| -> CState {
                            if matches!(r, Req::AddSnapLatest | Req::AddSnapPrev) {
                                if let Some(d) = &mut s.snapshot_data {
                                    if d == b"A" {
                                        *d = b"SA".to_vec();
                                    }
                                }
                            }
                            s
                        };
                        let s1 = fix(s1, ra);
                        let s2 = fix(s2, ra);
                        let got = (norm(&class_a, &before, &fin), norm(&class_b, &before, &fin), shape(&fin));
                        let ab = (norm(&a1, &before, &s1), norm(&b1, &before, &s1), shape(&s1));
                        let ba = (norm(&a2, &before, &s2), norm(&b2, &before, &s2), shape(&s2));
                        let scenario = format!("{backend}: client with {pre_len} versions{}; A={ra:?} over HTTP, B={rb:?} runs completely just before A's transaction #{n}", if pre_snap { " and a snapshot of the version before the latest" } else { "" });
                        if got != ab && got != ba {
                            // besides C03 / C01: the property about the operation that was cut in two
                            let mut tags = vec!["C03", "C01"];
                            tags.extend(match ra {
                                Req::GetSnap => vec!["C11"],
                                Req::AddSnapLatest | Req::AddSnapPrev => vec!["C10", "C11"],
                                Req::GetChild => vec!["C08", "C07"],
                                _ => vec!["C02"],
                            });
                            violations.push(json!({"tags": tags, "what": format!("no one-at-a-time order explains the outcome: got (A,B,state)={got:?}; order A,B gives {ab:?}; order B,A gives {ba:?}"), "scenario": scenario}));
                        } else if samples.len() < 4 && n > 0 {
                            samples.push(json!({"scenario": scenario, "outcome": format!("{got:?}")}));
                        }
                    }
                }
            }
        }
    }
    // ---- real threads (several Server instances, one SQLite directory / one in-memory storage): whatever the schedule,
    // every accepted version must be on the single chain and no request may fail merely because of the overlap
    let mut stress_runs = 0usize;
    for backend in ["in-memory", "sqlite-instances"] {
        for round in 0..(if backend == "in-memory" { if thorough { 6 } else { 3 } } else if thorough { 6 } else { 2 }) {
            stress_runs += 1;
            let cl = Uuid::new_v4();
            let dir = tempfile::Builder::new().prefix("tcss-stress-").tempdir_in(if std::path::Path::new("/dev/shm").is_dir() { "/dev/shm" } else { "/tmp" }).unwrap();
            let mem = Arc::new(InMemoryStorage::new());
            struct Dyn2(Box<dyn Storage>);
            impl Storage for Dyn2 {
                fn txn(&self, c: Uuid) -> anyhow::Result<Box<dyn taskchampion_sync_server_core::StorageTxn + '_>> {
                    self.0.txn(c)
                }
            }
            let mk = || -> Box<dyn Storage> {
                if backend == "in-memory" { Box::new(Shared(mem.clone())) } else { Box::new(SqliteStorage::new(dir.path()).unwrap()) }
            };
            let threads = 4usize;
            // the in-memory backend answers in well under a microsecond: many more requests are needed for two of them to overlap at all
            let per = if backend == "in-memory" { if thorough { 20000usize } else { 6000usize } } else if thorough { 30usize } else { 12usize };
            let accepted: Arc<Mutex<Vec<Uuid>>> = Arc::new(Mutex::new(vec![]));
            let errors: Arc<Mutex<Vec<String>>> = Arc::new(Mutex::new(vec![]));
            let barrier = Arc::new(std::sync::Barrier::new(threads));
            std::thread::scope(|sc| {
                for t in 0..threads {
                    let server = Server::new(ServerConfig::default(), Dyn2(mk()));
                    let accepted = accepted.clone();
                    let errors = errors.clone();
                    let barrier = barrier.clone();
                    sc.spawn(move || {
                        barrier.wait(); // all threads start together
                        let mut parent = NIL_VERSION_ID;
                        for i in 0..per {
                            // the handler's behaviour for a possibly unknown client, then AddVersion on what we believe is the latest
                            loop {
                                match server.add_version(cl, parent, format!("t{t}-{i}").into_bytes()) {
                                    Ok((AddVersionResult::Ok(v), _)) => {
                                        accepted.lock().unwrap().push(v);
                                        parent = v;
                                        break;
                                    }
                                    Ok((AddVersionResult::ExpectedParentVersion(l), _)) => {
                                        parent = l; // a well-behaved replica rebases and retries
                                    }
                                    Err(ServerError::NoSuchClient) => {
                                        let mut tx = match server.txn(cl) {
                                            Ok(t) => t,
                                            Err(e) => {
                                                errors.lock().unwrap().push(format!("txn: {e}"));
                                                break;
                                            }
                                        };
                                        match tx.get_client() {
                                            Ok(None) => {
                                                if let Err(e) = tx.new_client(NIL_VERSION_ID).and_then(|_| tx.commit()) {
                                                    errors.lock().unwrap().push(format!("create: {e}"));
                                                    break;
                                                }
                                            }
                                            Ok(Some(_)) => {}
                                            Err(e) => {
                                                errors.lock().unwrap().push(format!("get_client: {e}"));
                                                break;
                                            }
                                        }
                                    }
                                    Err(e) => {
                                        errors.lock().unwrap().push(format!("add_version: {e}").lines().next().unwrap_or("").to_string());
                                        break;
                                    }
                                }
                            }
                        }
                    });
                }
            });
            let acc = accepted.lock().unwrap().clone();
            let errs = errors.lock().unwrap().clone();
            let probe = mk();
            let mut problem = None;
            if !errs.is_empty() {
                problem = Some(format!("{} request(s) failed merely because of overlap, e.g. {:?}", errs.len(), &errs[..errs.len().min(2)]));
            } else if backend == "in-memory" {
                // long run: a linear walk from nil instead of the complete state comparison
                let mut t = probe.txn(cl).unwrap();
                let (mut p, mut n) = (NIL_VERSION_ID, 0usize);
                while let Some(v) = t.get_version_by_parent(p).unwrap() {
                    n += 1;
                    p = v.version_id;
                    if n > acc.len() + 1 {
                        break;
                    }
                }
                let latest = t.get_client().unwrap().map(|c| c.latest_version_id);
                if n != acc.len() || latest != Some(p) {
                    problem = Some(format!("{} versions were acknowledged as accepted but the walk from nil finds {} and ends at {p} (latest pointer {latest:?}): an accepted version was lost or orphaned", acc.len(), n));
                }
            } else {
                let mut uni = acc.clone();
                uni.push(NIL_VERSION_ID);
                let fin = absfn::via_api(probe.as_ref(), cl, &uni).unwrap();
                match chain_wf(&fin) {
                    Err(e) => problem = Some(format!("after {threads} threads x {per} AddVersions the stored state is not one chain: {e}")),
                    Ok(n) => {
                        if n != acc.len() || fin.versions.len() != acc.len() {
                            problem = Some(format!("{} versions were acknowledged as accepted but the chain holds {} ({} stored): an accepted version was lost or orphaned", acc.len(), n, fin.versions.len()));
                        }
                    }
                }
            }
            if let Some(p) = problem {
                violations.push(json!({"tags": ["C03", "C01"], "what": p, "scenario": format!("{backend}: {threads} threads, each its own Server instance, {per} AddVersions each with rebase-and-retry on conflict (round {round})")}));
            }
        }
    }
    let total_v = violations.len();
    // at most 3 reports per distinct tag set
    let mut kept: Vec<Value> = vec![];
    for v in violations.into_iter() {
        if kept.iter().filter(|x| x["tags"] == v["tags"]).count() < 3 {
            kept.push(v);
        }
    }
    let violations = kept;
    json!({"leg": "interleave", "thread_stress_runs": stress_runs, "cases": cases, "cases_where_B_actually_interleaved": fired, "violations": violations, "violations_total": total_v, "samples": samples,
        "bound": format!("3 backends (in-memory, one SQLite instance, two SQLite instances on one directory) x chain lengths {:?} (0 = client never seen) x 7 request kinds for A (HTTP) x 7 for B (library) x B placed before A's transaction #0..{}; B always runs to completion (no partial overlap of B); plus thread stress runs (4 threads with their own Server instances on one in-memory storage / one SQLite directory; a passing run proves nothing, a failing one is a counterexample)", chain_lens, if thorough { 3 } else { 2 })})
}
