pub mod absfn;
pub mod explore;
pub mod model;
pub mod wrappers;
pub mod faults;
pub mod interleave;
pub mod http;
pub mod sqlconf;
