//! Storage wrappers used by the bounded legs and the replays: shared handle, fault injection,
//! deterministic interleaving.  They wrap the REAL backends through the public `Storage` trait.
use std::sync::{Arc, Mutex};
use taskchampion_sync_server_core::{Client, Snapshot, Storage, StorageTxn, Version};
use uuid::Uuid;

/// `Storage` for a shared handle, so that a competing request can use the same backend
pub struct Shared<S: Storage>(pub Arc<S>);
impl<S: Storage> Clone for Shared<S> {
    fn clone(&self) -> Self {
        Shared(self.0.clone())
    }
}
impl<S: Storage> Storage for Shared<S> {
    fn txn(&self, client_id: Uuid) -> anyhow::Result<Box<dyn StorageTxn + '_>> {
        self.0.txn(client_id)
    }
}

// ------------------------------------------------------------------------------------------------ faults
#[derive(Default, Debug, Clone)]
pub struct FaultPlan {
    /// number of storage calls made so far (txn begin counts)
    pub calls: usize,
    /// fail the call with this index ...
    pub fail_at: Vec<usize>,
    /// ... after it took effect (true) or before (false)
    pub after_effect: bool,
    pub trace: Vec<String>,
    pub injected: usize,
}

pub struct FaultStorage<S: Storage> {
    pub inner: S,
    pub plan: Arc<Mutex<FaultPlan>>,
}

fn step(plan: &Arc<Mutex<FaultPlan>>, name: &str) -> (bool, bool) {
    let mut p = plan.lock().unwrap();
    let idx = p.calls;
    p.calls += 1;
    p.trace.push(name.to_string());
    let hit = p.fail_at.contains(&idx);
    if hit {
        p.injected += 1;
    }
    (hit, p.after_effect)
}

impl<S: Storage> Storage for FaultStorage<S> {
    fn txn(&self, client_id: Uuid) -> anyhow::Result<Box<dyn StorageTxn + '_>> {
        let (hit, after) = step(&self.plan, "txn");
        if hit && !after {
            anyhow::bail!("injected fault: txn (before)");
        }
        let inner = self.inner.txn(client_id)?;
        if hit {
            // the transaction was begun and is dropped (rolled back) at once
            drop(inner);
            anyhow::bail!("injected fault: txn (after)");
        }
        Ok(Box::new(FaultTxn { inner, plan: self.plan.clone() }))
    }
}

struct FaultTxn<'a> {
    inner: Box<dyn StorageTxn + 'a>,
    plan: Arc<Mutex<FaultPlan>>,
}

macro_rules! faulty {
    ($self:ident, $name:expr, $call:expr) => {{
        let (hit, after) = step(&$self.plan, $name);
        if hit && !after {
            anyhow::bail!("injected fault: {} (before)", $name);
        }
        let r = $call;
        if hit {
            let _ = r?;
            anyhow::bail!("injected fault: {} (after)", $name);
        }
        r
    }};
}

impl StorageTxn for FaultTxn<'_> {
    fn get_client(&mut self) -> anyhow::Result<Option<Client>> {
        faulty!(self, "get_client", self.inner.get_client())
    }
    fn new_client(&mut self, latest_version_id: Uuid) -> anyhow::Result<()> {
        faulty!(self, "new_client", self.inner.new_client(latest_version_id))
    }
    fn set_snapshot(&mut self, snapshot: Snapshot, data: Vec<u8>) -> anyhow::Result<()> {
        faulty!(self, "set_snapshot", self.inner.set_snapshot(snapshot, data))
    }
    fn get_snapshot_data(&mut self, version_id: Uuid) -> anyhow::Result<Option<Vec<u8>>> {
        faulty!(self, "get_snapshot_data", self.inner.get_snapshot_data(version_id))
    }
    fn get_version_by_parent(&mut self, parent_version_id: Uuid) -> anyhow::Result<Option<Version>> {
        faulty!(self, "get_version_by_parent", self.inner.get_version_by_parent(parent_version_id))
    }
    fn get_version(&mut self, version_id: Uuid) -> anyhow::Result<Option<Version>> {
        faulty!(self, "get_version", self.inner.get_version(version_id))
    }
    fn add_version(&mut self, version_id: Uuid, parent_version_id: Uuid, history_segment: Vec<u8>) -> anyhow::Result<()> {
        faulty!(self, "add_version", self.inner.add_version(version_id, parent_version_id, history_segment))
    }
    fn commit(&mut self) -> anyhow::Result<()> {
        faulty!(self, "commit", self.inner.commit())
    }
}

// ------------------------------------------------------------------------------------------------ interleaving
/// Runs `hook(n)` immediately before the n-th transaction (0-based) is begun: a complete competing
/// request executes between two transactions of the request under observation.  No threads.
pub struct InterleaveStorage<S: Storage> {
    pub inner: S,
    pub count: Mutex<usize>,
    pub hook: Box<dyn Fn(usize) + Send + Sync>,
}

impl<S: Storage> Storage for InterleaveStorage<S> {
    fn txn(&self, client_id: Uuid) -> anyhow::Result<Box<dyn StorageTxn + '_>> {
        let n = {
            let mut c = self.count.lock().unwrap();
            let n = *c;
            *c += 1;
            n
        };
        (self.hook)(n);
        self.inner.txn(client_id)
    }
}
