//! Abstraction functions: real storage -> model::CState / Db.
use crate::model::*;
use std::collections::BTreeMap;
use std::path::Path;
use taskchampion_sync_server_core::{Storage, StorageTxn};
use uuid::Uuid;

/// Through the StorageTxn API, for the ids of `universe` (complete when every id ever used is in it).
pub fn via_api(storage: &dyn Storage, client: Uuid, universe: &[Uuid]) -> anyhow::Result<CState> {
    let mut txn = storage.txn(client)?;
    via_txn(txn.as_mut(), universe)
}

pub fn via_txn(txn: &mut dyn StorageTxn, universe: &[Uuid]) -> anyhow::Result<CState> {
    let mut c = absent();
    let cl = match txn.get_client()? {
        None => {
            // a non-existent client must not own versions either
            for u in universe {
                if txn.get_version(*u)?.is_some() || txn.get_version_by_parent(*u)?.is_some() {
                    c.versions.insert(*u, GVersion { version_id: *u, parent_version_id: NIL, history_segment: vec![] });
                }
            }
            return Ok(c);
        }
        Some(cl) => cl,
    };
    c.exists = true;
    c.latest = cl.latest_version_id;
    if let Some(s) = cl.snapshot {
        c.snapshot = Some(GSnap { version_id: s.version_id, versions_since: s.versions_since });
        c.snapshot_data = txn.get_snapshot_data(s.version_id)?;
    }
    for u in universe {
        if let Some(v) = txn.get_version(*u)? {
            c.versions.insert(*u, GVersion { version_id: v.version_id, parent_version_id: v.parent_version_id, history_segment: v.history_segment });
        }
        if let Some(v) = txn.get_version_by_parent(*u)? {
            c.children.insert(*u, v.version_id);
            // a child reachable by parent must also be reachable by id
            c.versions.entry(v.version_id).or_insert(GVersion { version_id: v.version_id, parent_version_id: v.parent_version_id, history_segment: v.history_segment });
        }
    }
    Ok(c)
}

pub struct RawDump {
    pub db: Db,
    pub anomalies: Vec<String>,
}

/// Independent of the code under check: raw SQL over the two tables.
pub fn via_raw_sql(dir: &Path) -> anyhow::Result<RawDump> {
    let con = rusqlite::Connection::open(dir.join("taskchampion-sync-server.sqlite3"))?;
    let mut db: Db = BTreeMap::new();
    let mut anomalies = vec![];
    {
        let mut st = con.prepare("SELECT client_id, latest_version_id, snapshot_version_id, versions_since_snapshot, snapshot_timestamp, snapshot FROM clients")?;
        let rows = st.query_map([], |r| {
            Ok((
                r.get::<_, String>(0)?,
                r.get::<_, Option<String>>(1)?,
                r.get::<_, Option<String>>(2)?,
                r.get::<_, Option<i64>>(3)?,
                r.get::<_, Option<i64>>(4)?,
                r.get::<_, Option<Vec<u8>>>(5)?,
            ))
        })?;
        for row in rows {
            let (cid, latest, sv, vs, ts, blob) = row?;
            let cid = Uuid::parse_str(&cid)?;
            let mut c = absent();
            c.exists = true;
            c.latest = match latest {
                Some(l) => Uuid::parse_str(&l)?,
                None => {
                    anomalies.push(format!("client {cid} has NULL latest_version_id"));
                    NIL
                }
            };
            if let (Some(sv), Some(vs), Some(_ts)) = (&sv, vs, ts) {
                c.snapshot = Some(GSnap { version_id: Uuid::parse_str(sv)?, versions_since: vs as u32 });
                if vs < 0 || vs > u32::MAX as i64 {
                    anomalies.push(format!("client {cid}: versions_since_snapshot out of range: {vs}"));
                }
            } else if sv.is_some() || ts.is_some() {
                anomalies.push(format!("client {cid}: partially NULL snapshot columns"));
            }
            if c.snapshot.is_some() {
                c.snapshot_data = blob;
            } else if blob.is_some() {
                anomalies.push(format!("client {cid}: snapshot blob without snapshot meta"));
            }
            if db.insert(cid, c).is_some() {
                anomalies.push(format!("two rows for client {cid}"));
            }
        }
    }
    {
        let mut st = con.prepare("SELECT version_id, client_id, parent_version_id, history_segment FROM versions")?;
        let rows = st.query_map([], |r| Ok((r.get::<_, String>(0)?, r.get::<_, String>(1)?, r.get::<_, String>(2)?, r.get::<_, Vec<u8>>(3)?)))?;
        for row in rows {
            let (vid, cid, pid, seg) = row?;
            let (vid, cid, pid) = (Uuid::parse_str(&vid)?, Uuid::parse_str(&cid)?, Uuid::parse_str(&pid)?);
            let c = db.entry(cid).or_insert_with(|| {
                anomalies.push(format!("version {vid} belongs to client {cid} which has no row"));
                absent()
            });
            c.versions.insert(vid, GVersion { version_id: vid, parent_version_id: pid, history_segment: seg });
            if let Some(prev) = c.children.insert(pid, vid) {
                anomalies.push(format!("client {cid}: versions {prev} and {vid} share parent {pid}"));
            }
        }
    }
    Ok(RawDump { db, anomalies })
}
