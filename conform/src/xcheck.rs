//! Cross-check of the hand-written executable oracle (model.rs) against the Verus specification
//! functions it restates: for sampled concrete states, the values model.rs computes are emitted as Verus
//! `proof fn`s over the REAL spec functions (`back`, `accept`, `gcv_spec`, `snap_should_accept`,
//! `snap_corner`, `urgency_spec`); Verus must prove every one of them.  (Translation validation by
//! sampling of the "second compilation"; DESIGN.md 13.2.)
use crate::model::*;
use std::collections::BTreeMap;
use uuid::Uuid;

fn id(n: u128) -> Uuid {
    Uuid::from_u128(n)
}
fn vid(u: Uuid) -> String {
    format!("Uuid {{ v: {} }}", u.as_u128())
}

/// chain of n versions 1..=n (1 oldest) hanging off `base`; snapshot at position `snap` (0 = latest) or at the base (Some(n)) or none
fn mk(n: usize, base: u128, snap: Option<usize>) -> CState {
    let mut c = absent();
    c.exists = true;
    let mut parent = id(base);
    for i in 1..=n {
        let v = id(i as u128);
        c.versions.insert(v, GVersion { version_id: v, parent_version_id: parent, history_segment: vec![] });
        c.children.insert(parent, v);
        parent = v;
    }
    c.latest = if n == 0 { NIL } else { id(n as u128) };
    if let Some(k) = snap {
        let sv = back(&c, k);
        c.snapshot = Some(GSnap { version_id: sv, versions_since: k as u32 });
        c.snapshot_data = Some(vec![]);
    }
    c
}

fn emit_state(c: &CState) -> String {
    let mut s = String::new();
    s.push_str("    let vs = IMap::<Uuid, GVersion>::empty()");
    for (k, v) in &c.versions {
        s.push_str(&format!("\n        .insert({}, GVersion {{ version_id: {}, parent_version_id: {}, history_segment: Seq::empty() }})", vid(*k), vid(v.version_id), vid(v.parent_version_id)));
    }
    s.push_str(";\n    let ch = IMap::<Uuid, Uuid>::empty()");
    for (k, v) in &c.children {
        s.push_str(&format!("\n        .insert({}, {})", vid(*k), vid(*v)));
    }
    s.push_str(";\n");
    let snap = match &c.snapshot {
        None => "None".to_string(),
        Some(sn) => format!("Some(Snapshot {{ version_id: {}, timestamp: arbitrary(), versions_since: {} }})", vid(sn.version_id), sn.versions_since),
    };
    s.push_str(&format!(
        "    let c = CState {{ exists: {}, latest: {}, snapshot: {}, snapshot_data: {}, versions: vs, children: ch }};\n",
        c.exists,
        vid(c.latest),
        snap,
        if c.snapshot_data.is_some() { "Some(Seq::empty())" } else { "None" }
    ));
    s
}

pub fn generate() -> (String, usize) {
    let mut out = String::new();
    let mut facts = 0usize;
    let mut samples: Vec<(String, CState)> = vec![];
    for n in [0usize, 1, 2, 4, 5, 6, 7] {
        for base in [0u128, 900] {
            if n == 0 && base != 0 {
                continue;
            }
            let mut snaps: Vec<Option<usize>> = vec![None];
            if n > 0 {
                snaps.push(Some(0));
                snaps.push(Some(n.min(2)));
                if n >= 5 {
                    snaps.push(Some(5));
                }
                if base != 0 {
                    snaps.push(Some(n));
                }
            }
            snaps.sort();
            snaps.dedup();
            for sn in snaps {
                samples.push((format!("n{}_b{}_s{}", n, base, sn.map(|k| k.to_string()).unwrap_or("x".into())), mk(n, base, sn)));
            }
        }
    }
    for (name, c) in &samples {
        let n = chain_wf(c).unwrap_or(0);
        out.push_str(&format!("pub proof fn xcheck_{name}() {{\n"));
        out.push_str(&emit_state(c));
        out.push_str("    reveal_with_fuel(back, 10);\n");
        // back
        for k in 0..=(n + 1).min(8) {
            out.push_str(&format!("    assert(back(c, {k}) == {});\n", vid(back(c, k))));
            facts += 1;
        }
        // ids of interest
        let mut ids: Vec<Uuid> = vec![NIL, id(777)];
        for k in 0..=n.min(7) {
            ids.push(back(c, k));
        }
        ids.sort();
        ids.dedup();
        for p in &ids {
            // accept
            out.push_str(&format!("    assert({}accept(c, {}));\n", if accept(c, *p) { "" } else { "!" }, vid(*p)));
            facts += 1;
            // gcv
            let g = match gcv_spec(c, *p) {
                Gcv::NoSuchClient => "GcvAnswer::NoSuchClient".to_string(),
                Gcv::NotFound => "GcvAnswer::NotFound".to_string(),
                Gcv::Gone => "GcvAnswer::Gone".to_string(),
                Gcv::Found(v) => format!("GcvAnswer::Found(vs[{}])", vid(v.version_id)),
            };
            out.push_str(&format!("    assert(gcv_spec(c, {}) == {g});\n", vid(*p)));
            facts += 1;
            // snapshot acceptance
            let v = *p;
            if snap_should_accept(c, v) {
                let k = (0..5).find(|k| snap_acc_at(c, v, *k)).unwrap();
                for j in 0..=k {
                    out.push_str(&format!("    assert(stored(c, back(c, {j})));\n"));
                }
                out.push_str(&format!("    assert(snap_acc_at(c, {}, {k}));\n    assert(snap_should_accept(c, {}));\n", vid(v), vid(v)));
            } else {
                out.push_str(&format!("    assert(!snap_should_accept(c, {})) by {{\n", vid(v)));
                if v != NIL && !snap_at(c, v) {
                    out.push_str(&format!("        assert forall|k: nat| !snap_acc_at(c, {}, k) by {{\n", vid(v)));
                    for k in 0..5usize {
                        // why position k does not qualify
                        let why = if back(c, k) != v {
                            format!("assert(back(c, {k}) != {});", vid(v))
                        } else if let Some(j) = (0..=k).find(|j| !stored(c, back(c, *j))) {
                            format!("assert(!stored(c, back(c, {j})));")
                        } else if let Some(j) = (0..k).find(|j| snap_at(c, back(c, *j))) {
                            format!("assert(c.snapshot is Some && c.snapshot->Some_0.version_id == back(c, {j}));")
                        } else {
                            "assert(false);".to_string()
                        };
                        out.push_str(&format!("            if k == {k} {{ {why} }}\n"));
                    }
                    out.push_str("        }\n");
                }
                out.push_str("    }\n");
            }
            facts += 1;
            // corner
            if snap_corner(c, v) {
                let k = (0..5).find(|k| back(c, *k) == v).unwrap();
                for j in 0..k {
                    out.push_str(&format!("    assert(stored(c, back(c, {j})) && !snap_at(c, back(c, {j})));\n"));
                }
                out.push_str(&format!("    assert(back(c, {k}) == {} && !stored(c, {}));\n    assert(snap_corner(c, {}));\n", vid(v), vid(v), vid(v)));
                facts += 1;
            }
        }
        out.push_str("}\n\n");
    }
    // urgency thresholds
    out.push_str("pub proof fn xcheck_urgency() {\n");
    let rank = |u: Urg| match u {
        Urg::None => "SnapshotUrgency::None",
        Urg::Low => "SnapshotUrgency::Low",
        Urg::High => "SnapshotUrgency::High",
    };
    let mut seen = BTreeMap::new();
    for t in [0i128, 1, 2, 3, 5, 14, 100, 2_000_000_000, 4_294_967_295, 9_223_372_036_854_775_807] {
        for m in [0i128, 1, 2, 3, 4, 6, 7, 20, 21, 22, 149, 150, t - 1, t, t * 3 / 2 - 1, t * 3 / 2] {
            if m < 0 || seen.insert((t, m), ()).is_some() {
                continue;
            }
            out.push_str(&format!("    assert(urgency_spec({t}, {m}) == {});\n", rank(urgency_spec(t, m))));
            facts += 1;
        }
    }
    out.push_str("}\n");
    (out, facts)
}
