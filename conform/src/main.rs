//! tcss-conform <leg> [--tier quick|thorough] [--seed N] [--budget-s S]
//! Prints one JSON report on stdout.  Exit 0 always (the driver reads the report).
use serde_json::json;
use std::time::{Duration, Instant};
use tcss_conform::explore::*;

fn arg(name: &str, default: &str) -> String {
    let a: Vec<String> = std::env::args().collect();
    a.iter().position(|x| x == name).and_then(|i| a.get(i + 1).cloned()).unwrap_or_else(|| default.to_string())
}

fn leg_explore(tier: &str, seed: u64, budget_s: u64) -> serde_json::Value {
    let t0 = Instant::now();
    let deadline = t0 + Duration::from_secs(budget_s);
    let mut reports = vec![];
    let mut all_viol = vec![];
    let mut run_part = |name: &str, f: &mut dyn FnMut(&mut Report, &mut dyn FnMut() -> bool)| {
        let mut rep = Report::new();
        let mut budget = || Instant::now() < deadline;
        let s0 = Instant::now();
        f(&mut rep, &mut budget);
        for v in &rep.violations {
            all_viol.push(v.to_json());
        }
        reports.push(json!({"part": name, "sequences": rep.sequences, "steps": rep.steps, "distinct_model_states": rep.states.len(),
            "violations": rep.violations.len(), "wall_s": s0.elapsed().as_secs_f64(), "sample_traces": rep.samples, "budget_exhausted": Instant::now() >= deadline}));
    };
    let thorough = tier == "thorough";
    let depth = if thorough { 3 } else { 2 };
    run_part(&format!("exhaustive in-memory: all op sequences of length {depth} over the {}-op alphabet (2 clients), after each of {} seed prefixes", alphabet(true).len(), seed_prefixes().len()), &mut |rep, b| {
        exhaustive(BackendKind::Mem, (3, 2), &seed_prefixes(), depth, true, rep, b)
    });
    let (walks, len) = if thorough { (600, 14) } else { (70, 10) };
    for kind in [BackendKind::Mem, BackendKind::Sqlite, BackendKind::SqliteReopen, BackendKind::MemTwoServers, BackendKind::SqliteTwoServers] {
        let w = if matches!(kind, BackendKind::Mem | BackendKind::MemTwoServers) { walks * 4 } else { walks };
        run_part(&format!("random walks {kind:?}: {w} walks of a seed prefix + {len} random ops, configs cycled over {:?}", CONFIGS), &mut |rep, b| random_walks(kind, seed, w, len, rep, b));
    }
    run_part(&format!("exhaustive, two Server instances alternating over one in-memory storage: all op sequences of length {depth} after each seed prefix"), &mut |rep, b| {
        exhaustive(BackendKind::MemTwoServers, (3, 2), &seed_prefixes(), depth, true, rep, b)
    });
    if thorough {
        run_part("exhaustive SQLite: all op sequences of length 2 (1 client) after each seed prefix", &mut |rep, b| exhaustive(BackendKind::Sqlite, (3, 2), &seed_prefixes(), 2, false, rep, b));
    }
    json!({"leg": "explore", "tier": tier, "seed": seed, "parts": reports, "violations": all_viol, "wall_s": t0.elapsed().as_secs_f64()})
}

fn main() {
    let leg = std::env::args().nth(1).unwrap_or_default();
    let tier = arg("--tier", "quick");
    let seed: u64 = arg("--seed", "0").parse().unwrap_or(0);
    let budget: u64 = arg("--budget-s", if tier == "thorough" { "240" } else { "25" }).parse().unwrap_or(25);
    let out = match leg.as_str() {
        "explore" => leg_explore(&tier, seed, budget),
        "interleave" => tcss_conform::interleave::leg_interleave(tier == "thorough"),
        "http" => tcss_conform::http::leg_http(tier == "thorough", seed),
        "sqlconf" => tcss_conform::sqlconf::leg_sqlconf(tier == "thorough"),
        "standins" => tcss_conform::standins::leg_standins(),
        "faults" => tcss_conform::faults::leg_faults(tier == "thorough"),
        _ => json!({"error": format!("unknown leg {leg}")}),
    };
    println!("{}", serde_json::to_string(&out).unwrap());
}
