//! Bounded, model-based exploration of the REAL `Server` over the real backends (in-memory, SQLite,
//! SQLite re-opened before every request).  The oracle is `model.rs`.  Every figure here is a bound.
use crate::absfn;
use crate::model::*;
use crate::wrappers::Shared;
use serde_json::{json, Value};
use std::collections::{BTreeMap, BTreeSet};
use std::sync::Arc;
use taskchampion_sync_server_core::{AddVersionResult, GetVersionResult, InMemoryStorage, Server, ServerConfig, ServerError, SnapshotUrgency, Storage, NIL_VERSION_ID};
use taskchampion_sync_server_storage_sqlite::SqliteStorage;
use uuid::Uuid;

#[derive(Clone, Copy, PartialEq, Eq, Debug)]
pub enum BackendKind {
    Mem,
    Sqlite,
    SqliteReopen,
    /// two `Server` instances over one in-memory storage, requests alternate between them
    MemTwoServers,
    /// two `Server` instances, each with its own `SqliteStorage` on one data directory
    SqliteTwoServers,
}

#[derive(Clone, Copy, PartialEq, Eq, Debug)]
pub enum IdSel {
    Nil,
    Latest,
    Ancestor(usize),
    Base,
    Fresh,
    ForeignLatest,
    ForeignAncestor(usize),
    ForeignBase,
    SnapVersion,
}

#[derive(Clone, PartialEq, Eq, Debug)]
pub enum Op {
    Create(usize),
    AddVersion(usize, IdSel, usize),
    Gcv(usize, IdSel),
    AddSnap(usize, IdSel, usize),
    GetSnap(usize),
    /// make the stored snapshot `days` days old (storage-level rewrite of its timestamp only), so that the
    /// age half of the urgency rule is exercised
    Age(usize, i64),
}

pub const PAYLOADS: &[&[u8]] = &[b"x", &[0x00, 0xff], b"123", &[0xc3, 0x28, 0xff, 0x00, 0x80], b"-1.5e3"];

#[derive(Debug, Clone)]
pub struct Violation {
    pub tags: Vec<&'static str>,
    pub what: String,
    pub backend: BackendKind,
    pub cfg: (i64, u32),
    pub trace: Vec<String>,
}

impl Violation {
    pub fn to_json(&self) -> Value {
        json!({"tags": self.tags, "what": self.what, "backend": format!("{:?}", self.backend), "config": {"snapshot_days": self.cfg.0, "snapshot_versions": self.cfg.1}, "trace": self.trace})
    }
}

pub struct World {
    pub plan: Option<Arc<std::sync::Mutex<crate::wrappers::FaultPlan>>>,
    pub kind: BackendKind,
    pub dir: Option<tempfile::TempDir>,
    pub mem: Option<Arc<InMemoryStorage>>,
    pub server: Server,
    /// second instance sharing the same data (requests alternate): nothing may be remembered per instance
    pub server2: Option<Server>,
    pub cfg: (i64, u32),
}

fn scratch_dir() -> tempfile::TempDir {
    let base = if std::path::Path::new("/dev/shm").is_dir() { "/dev/shm" } else { "/tmp" };
    tempfile::Builder::new().prefix("tcss-conform-").tempdir_in(base).expect("scratch dir")
}

impl World {
    pub fn new(kind: BackendKind, cfg: (i64, u32)) -> World {
        let sc = ServerConfig { snapshot_days: cfg.0, snapshot_versions: cfg.1 };
        match kind {
            BackendKind::Mem | BackendKind::MemTwoServers => {
                let mem = Arc::new(InMemoryStorage::new());
                let server2 = if kind == BackendKind::MemTwoServers { Some(Server::new(ServerConfig { snapshot_days: cfg.0, snapshot_versions: cfg.1 }, Shared(mem.clone()))) } else { None };
                World { plan: None, kind, dir: None, server: Server::new(sc, Shared(mem.clone())), server2, mem: Some(mem), cfg }
            }
            _ => {
                let dir = scratch_dir();
                let st = SqliteStorage::new(dir.path()).expect("sqlite storage");
                let server2 = if kind == BackendKind::SqliteTwoServers {
                    Some(Server::new(ServerConfig { snapshot_days: cfg.0, snapshot_versions: cfg.1 }, SqliteStorage::new(dir.path()).expect("sqlite storage")))
                } else {
                    None
                };
                World { plan: None, kind, server: Server::new(sc, st), server2, dir: Some(dir), mem: None, cfg }
            }
        }
    }
    /// SQLite behind the fault-injecting wrapper
    pub fn new_faulty(cfg: (i64, u32)) -> World {
        let sc = ServerConfig { snapshot_days: cfg.0, snapshot_versions: cfg.1 };
        let dir = scratch_dir();
        let st = SqliteStorage::new(dir.path()).expect("sqlite storage");
        let plan = Arc::new(std::sync::Mutex::new(crate::wrappers::FaultPlan::default()));
        let fs = crate::wrappers::FaultStorage { inner: st, plan: plan.clone() };
        World { plan: Some(plan), kind: BackendKind::Sqlite, server: Server::new(sc, fs), server2: None, dir: Some(dir), mem: None, cfg }
    }
    pub fn reopen(&mut self) {
        if let Some(d) = &self.dir {
            let sc = ServerConfig { snapshot_days: self.cfg.0, snapshot_versions: self.cfg.1 };
            self.server = Server::new(sc, SqliteStorage::new(d.path()).expect("reopen"));
        }
    }
    pub fn probe(&self) -> Box<dyn Storage> {
        match (&self.mem, &self.dir) {
            (Some(m), _) => Box::new(Shared(m.clone())),
            (_, Some(d)) => Box::new(SqliteStorage::new(d.path()).expect("probe")),
            _ => unreachable!(),
        }
    }
}

pub struct Run {
    pub world: World,
    pub model: Db,
    pub clients: [Uuid; 2],
    pub universe: Vec<Uuid>,
    pub accepted: BTreeMap<Uuid, Vec<Uuid>>,
    pub trace: Vec<String>,
    pub states_seen: BTreeSet<String>,
    pub age_days: BTreeMap<Uuid, i64>,
    pub steps: usize,
    /// skip the read-back of the stored state after each request (used only to build start states)
    pub light: bool,
}

fn urg_of(u: SnapshotUrgency) -> Urg {
    match u {
        SnapshotUrgency::None => Urg::None,
        SnapshotUrgency::Low => Urg::Low,
        SnapshotUrgency::High => Urg::High,
    }
}

impl Run {
    pub fn new(kind: BackendKind, cfg: (i64, u32)) -> Run {
        let clients = [Uuid::new_v4(), Uuid::new_v4()];
        let mut universe = vec![NIL];
        // a few fixed ids that are never versions
        universe.push(Uuid::from_u128(0x1111_1111_1111_4111_8111_1111_1111_1111));
        Run { world: World::new(kind, cfg), model: BTreeMap::new(), clients, universe, accepted: BTreeMap::new(), trace: vec![], states_seen: BTreeSet::new(), age_days: BTreeMap::new(), steps: 0, light: false }
    }

    fn viol(&self, tags: &[&'static str], what: String) -> Violation {
        let mut tags = tags.to_vec();
        // a deviation seen on a SQLite configuration is by construction also a difference between backends
        if !matches!(self.world.kind, BackendKind::Mem | BackendKind::MemTwoServers) && !tags.contains(&"C13") {
            tags.push("C13");
        }
        // with two server instances on one data set, a deviation means something is remembered per instance
        if matches!(self.world.kind, BackendKind::MemTwoServers | BackendKind::SqliteTwoServers) && !tags.contains(&"C03") {
            tags.push("C03");
        }
        Violation { tags, what, backend: self.world.kind, cfg: self.world.cfg, trace: self.trace.clone() }
    }

    pub fn resolve(&mut self, c: usize, sel: IdSel) -> Uuid {
        let me = cs(&self.model, self.clients[c]);
        let other = cs(&self.model, self.clients[1 - c]);
        let n_of = |s: &CState| chain_wf(s).unwrap_or(0);
        let id = match sel {
            IdSel::Nil => NIL,
            IdSel::Latest => me.latest,
            IdSel::Ancestor(k) => back(&me, k),
            IdSel::Base => back(&me, n_of(&me)),
            IdSel::Fresh => Uuid::new_v4(),
            IdSel::ForeignLatest => other.latest,
            IdSel::ForeignAncestor(k) => back(&other, k),
            IdSel::ForeignBase => back(&other, n_of(&other)),
            IdSel::SnapVersion => me.snapshot.as_ref().map(|s| s.version_id).unwrap_or(NIL),
        };
        if !self.universe.contains(&id) {
            self.universe.push(id);
        }
        id
    }

    /// normalised model state (ids replaced by first-appearance index) for counting distinct states
    fn fingerprint(&self) -> String {
        let mut names: BTreeMap<Uuid, usize> = BTreeMap::new();
        let mut name = |u: Uuid, names: &mut BTreeMap<Uuid, usize>| -> String {
            if u == NIL {
                return "nil".into();
            }
            let n = names.len();
            format!("#{}", names.entry(u).or_insert(n))
        };
        let mut out = String::new();
        for cl in self.clients {
            let c = cs(&self.model, cl);
            out.push_str(&format!("[{}|", c.exists));
            let n = chain_wf(&c).unwrap_or(0);
            for k in 0..=n {
                let u = back(&c, k);
                let nm = name(u, &mut names);
                out.push_str(&nm);
                out.push(',');
            }
            match &c.snapshot {
                Some(s) => {
                    let nm = name(s.version_id, &mut names);
                    out.push_str(&format!("|snap {} {}", nm, s.versions_since))
                }
                None => out.push_str("|nosnap"),
            }
            out.push(']');
        }
        out
    }

    pub fn step(&mut self, op: &Op) -> Result<(), Violation> {
        self.steps += 1;
        if self.world.kind == BackendKind::SqliteReopen {
            self.world.reopen();
        }
        if let Some(s2) = &mut self.world.server2 {
            // alternate between the two server instances
            std::mem::swap(&mut self.world.server, s2);
        }
        let before = self.model.clone();
        let mut mutating_expected = false;
        match op {
            Op::Create(c) => {
                let cl = self.clients[*c];
                self.trace.push(format!("create-client-if-absent(client{c})"));
                if !cs(&self.model, cl).exists {
                    let mut txn = self.world.server.txn(cl).map_err(|e| self.viol(&["C05"], format!("txn failed: {e}")))?;
                    txn.new_client(NIL_VERSION_ID).map_err(|e| self.viol(&["C13"], format!("new_client failed: {e}")))?;
                    txn.commit().map_err(|e| self.viol(&["C13"], format!("commit failed: {e}")))?;
                    self.model.insert(cl, new_client_spec(NIL));
                    mutating_expected = true;
                }
            }
            Op::AddVersion(c, sel, pl) => {
                let cl = self.clients[*c];
                let p = self.resolve(*c, *sel);
                let payload = PAYLOADS[*pl % PAYLOADS.len()].to_vec();
                self.trace.push(format!("add_version(client{c}, parent={sel:?}={p}, payload={payload:?})"));
                let pre = cs(&self.model, cl);
                let r = self.world.server.add_version(cl, p, payload.clone());
                if !pre.exists {
                    if !matches!(r, Err(ServerError::NoSuchClient)) {
                        return Err(self.viol(&["C02", "C14"], format!("add_version for an unknown client returned {r:?}, expected NoSuchClient")));
                    }
                } else if accept(&pre, p) {
                    mutating_expected = true;
                    match r {
                        Ok((AddVersionResult::Ok(v), u)) => {
                            if v == NIL || self.universe.contains(&v) {
                                return Err(self.viol(&["C02", "C01"], format!("accepted version got id {v}, which is nil or was seen before")));
                            }
                            let exp_u = match &pre.snapshot {
                                None => Urg::High,
                                Some(s) => std::cmp::max(urgency_spec(self.world.cfg.0 as i128, *self.age_days.get(&cl).unwrap_or(&0) as i128), urgency_spec(self.world.cfg.1 as i128, s.versions_since as i128)),
                            };
                            if self.world.cfg.0 >= 0 && urg_of(u) != exp_u {
                                return Err(self.viol(&["C12"], format!("urgency {:?}, expected {:?} (snapshot {:?})", u, exp_u, pre.snapshot)));
                            }
                            self.universe.push(v);
                            self.accepted.entry(cl).or_default().push(v);
                            self.model.insert(cl, add_version_spec(&pre, v, p, &payload));
                        }
                        other => return Err(self.viol(&["C02", "C08", "C01"], format!("add_version with acceptable parent returned {other:?}"))),
                    }
                } else {
                    match r {
                        Ok((AddVersionResult::ExpectedParentVersion(l), _)) if l == pre.latest => {}
                        other => return Err(self.viol(&["C02", "C08", "C01"], format!("add_version with unacceptable parent {p} returned {other:?}, expected ExpectedParentVersion({})", pre.latest))),
                    }
                }
            }
            Op::Gcv(c, sel) => {
                let cl = self.clients[*c];
                let p = self.resolve(*c, *sel);
                self.trace.push(format!("get_child_version(client{c}, parent={sel:?}={p})"));
                let pre = cs(&self.model, cl);
                let r = self.world.server.get_child_version(cl, p);
                let got = match r {
                    Err(ServerError::NoSuchClient) => Gcv::NoSuchClient,
                    Err(e) => return Err(self.viol(&["C05", "C08"], format!("get_child_version failed: {e}"))),
                    Ok(GetVersionResult::NotFound) => Gcv::NotFound,
                    Ok(GetVersionResult::Gone) => Gcv::Gone,
                    Ok(GetVersionResult::Success { version_id, parent_version_id, history_segment }) => Gcv::Found(GVersion { version_id, parent_version_id, history_segment }),
                };
                let exp = gcv_spec(&pre, p);
                if got != exp {
                    return Err(self.viol(&["C08", "C07", "C06", "C09", "C01"], format!("get_child_version returned {got:?}, expected {exp:?}")));
                }
            }
            Op::AddSnap(c, sel, pl) => {
                let cl = self.clients[*c];
                let v = self.resolve(*c, *sel);
                let data = PAYLOADS[*pl % PAYLOADS.len()].to_vec();
                self.trace.push(format!("add_snapshot(client{c}, version={sel:?}={v}, data={data:?})"));
                let pre = cs(&self.model, cl);
                let r = self.world.server.add_snapshot(cl, v, data.clone());
                if !pre.exists {
                    if !matches!(r, Err(ServerError::NoSuchClient)) {
                        return Err(self.viol(&["C10", "C14"], format!("add_snapshot for an unknown client returned {r:?}")));
                    }
                } else {
                    if r.is_err() {
                        return Err(self.viol(&["C10"], format!("add_snapshot returned {r:?}, expected Ok either way")));
                    }
                    if snap_should_accept(&pre, v) {
                        mutating_expected = true;
                        self.age_days.insert(cl, 0);
                        self.model.insert(cl, set_snapshot_spec(&pre, v, 0, &data));
                    } else if snap_corner(&pre, v) {
                        // unspecified corner: adopt what the implementation did, if it is one of the two allowed outcomes
                        // (read through the very server instance that served the request: a fresh storage object would already be
                        // a re-open, and what a re-open does to the stored snapshot is exactly what is being checked afterwards)
                        let real = {
                            let mut t = self.world.server.txn(cl).map_err(|e| self.viol(&["C13"], format!("probe failed: {e}")))?;
                            absfn::via_txn(t.as_mut(), &self.universe).map_err(|e| self.viol(&["C13"], format!("probe failed: {e}")))?
                        };
                        let applied = set_snapshot_spec(&pre, v, 0, &data);
                        if real == applied {
                            mutating_expected = true;
                            self.age_days.insert(cl, 0);
                            self.model.insert(cl, applied);
                        }
                    }
                }
            }
            Op::Age(c, days) => {
                let cl = self.clients[*c];
                self.trace.push(format!("(storage) make the snapshot of client{c} {days} days old"));
                let pre = cs(&self.model, cl);
                if let (Some(s), Some(d)) = (&pre.snapshot, &pre.snapshot_data) {
                    let mut txn = self.world.server.txn(cl).map_err(|e| self.viol(&["C05"], format!("txn failed: {e}")))?;
                    let snap = taskchampion_sync_server_core::Snapshot { version_id: s.version_id, timestamp: chrono::Utc::now() - chrono::Duration::days(*days) - chrono::Duration::hours(1), versions_since: s.versions_since };
                    txn.set_snapshot(snap, d.clone()).map_err(|e| self.viol(&["C13"], format!("set_snapshot failed: {e}")))?;
                    txn.commit().map_err(|e| self.viol(&["C13"], format!("commit failed: {e}")))?;
                    self.age_days.insert(cl, *days);
                }
            }
            Op::GetSnap(c) => {
                let cl = self.clients[*c];
                self.trace.push(format!("get_snapshot(client{c})"));
                let pre = cs(&self.model, cl);
                let r = self.world.server.get_snapshot(cl);
                match (pre.exists, &pre.snapshot, r) {
                    (false, _, Err(ServerError::NoSuchClient)) => {}
                    (true, None, Ok(None)) => {}
                    (true, Some(s), Ok(Some((v, d)))) if v == s.version_id && Some(&d) == pre.snapshot_data.as_ref() => {}
                    (_, _, other) => return Err(self.viol(&["C11", "C06"], format!("get_snapshot returned {other:?}, model has {:?}", pre.snapshot))),
                }
            }
        }
        if !self.light {
            self.check_state(&before, mutating_expected, op)?;
        }
        self.states_seen.insert(self.fingerprint());
        Ok(())
    }

    fn check_state(&mut self, before: &Db, mutating: bool, op: &Op) -> Result<(), Violation> {
        let probe = self.world.probe();
        let actor = match op {
            Op::Create(c) | Op::AddVersion(c, _, _) | Op::Gcv(c, _) | Op::AddSnap(c, _, _) | Op::GetSnap(c) | Op::Age(c, _) => *c,
        };
        for (i, cl) in self.clients.iter().enumerate() {
            let real = absfn::via_api(probe.as_ref(), *cl, &self.universe).map_err(|e| self.viol(&["C13", "C05"], format!("reading back state failed: {e}")))?;
            let want = cs(&self.model, *cl);
            if real != want {
                let mut extra: Vec<&'static str> = vec![];
                if real.snapshot.as_ref().map(|s| s.versions_since) != want.snapshot.as_ref().map(|s| s.versions_since) {
                    extra.push("C12");
                }
                if real.snapshot.as_ref().map(|s| s.version_id) != want.snapshot.as_ref().map(|s| s.version_id) || real.snapshot_data != want.snapshot_data {
                    extra.push("C11");
                    extra.push("C10");
                }
                if real.versions != want.versions || real.children != want.children || real.latest != want.latest {
                    extra.push("C07");
                    extra.push("C01");
                }
                if real.children != want.children {
                    // the child index is read through get_version_by_parent, the look-up GetChildVersion answers from: a link that
                    // is missing or extra there is a wrong found / not-found / gone answer for that parent
                    extra.push("C08");
                }
                let tags: &[&'static str] = if i != actor {
                    &["C09"]
                } else if !mutating {
                    &["C18", "C10", "C02"]
                } else {
                    match op {
                        Op::AddSnap(..) => &["C10", "C11", "C12"],
                        Op::AddVersion(..) => &["C02", "C01", "C12", "C06", "C07"],
                        _ => &["C13"],
                    }
                };
                let mut tags: Vec<&'static str> = tags.to_vec();
                for e in extra {
                    if !tags.contains(&e) {
                        tags.push(e);
                    }
                }
                return Err(self.viol(&tags, format!("stored state of client{i} differs from the contract's post-state: real {real:?} expected {want:?} (before: {:?})", cs(before, *cl))));
            }
            // C01: one unbranched chain, walkable from its base in acceptance order
            let n = chain_wf(&real).map_err(|e| self.viol(&["C01"], format!("client{i}: {e}")))?;
            if real.exists {
                let base = back(&real, n);
                let w = walk(&real, base).map_err(|e| self.viol(&["C01", "C08"], format!("client{i}: walk from base: {e}")))?;
                let acc = self.accepted.get(cl).cloned().unwrap_or_default();
                if w != acc {
                    return Err(self.viol(&["C01", "C07"], format!("client{i}: walking from the base yields {w:?}, accepted order was {acc:?}")));
                }
                // C11: the snapshot version is a usable base
                if let Some(s) = &real.snapshot {
                    walk(&real, s.version_id).map_err(|e| self.viol(&["C11"], format!("client{i}: walk from snapshot version: {e}")))?;
                }
            }
        }
        if let Some(d) = &self.world.dir {
            let raw = absfn::via_raw_sql(d.path()).map_err(|e| self.viol(&["C13"], format!("raw dump failed: {e}")))?;
            if !raw.anomalies.is_empty() {
                return Err(self.viol(&["C01", "C13", "C07"], format!("database anomalies: {:?}", raw.anomalies)));
            }
            let mut want = self.model.clone();
            want.retain(|_, c| c.exists);
            if raw.db != want {
                return Err(self.viol(&["C13", "C09", "C07"], format!("raw database content differs from the contract state: {:?} vs {:?}", raw.db, want)));
            }
        }
        Ok(())
    }
}

pub const CONFIGS: &[(i64, u32)] = &[(14, 100), (0, 0), (1, 1), (3, 3), (5, 2), (i64::MAX, u32::MAX), (7, 5)];

pub fn alphabet(two_clients: bool) -> Vec<Op> {
    let mut ops = vec![];
    let cs_: &[usize] = if two_clients { &[0, 1] } else { &[0] };
    for &c in cs_ {
        ops.push(Op::Create(c));
        for sel in [IdSel::Nil, IdSel::Latest, IdSel::Ancestor(1), IdSel::Base, IdSel::Fresh, IdSel::ForeignLatest] {
            ops.push(Op::AddVersion(c, sel, 0));
            ops.push(Op::Gcv(c, sel));
        }
        for sel in [IdSel::Nil, IdSel::Latest, IdSel::Ancestor(1), IdSel::Ancestor(4), IdSel::Ancestor(5), IdSel::Base, IdSel::Fresh, IdSel::ForeignAncestor(1), IdSel::SnapVersion] {
            ops.push(Op::AddSnap(c, sel, 1 + c));
        }
        ops.push(Op::GetSnap(c));
        ops.push(Op::Age(c, 3));
        ops.push(Op::Age(c, 4));
    }
    ops
}

pub struct Report {
    pub sequences: usize,
    pub steps: usize,
    pub states: BTreeSet<String>,
    pub violations: Vec<Violation>,
    pub samples: Vec<Vec<String>>,
}

impl Report {
    pub fn new() -> Report {
        Report { sequences: 0, steps: 0, states: BTreeSet::new(), violations: vec![], samples: vec![] }
    }
    fn absorb(&mut self, run: Run, v: Option<Violation>) {
        self.sequences += 1;
        self.steps += run.steps;
        self.states.extend(run.states_seen.iter().cloned());
        if self.samples.len() < 3 && run.trace.len() >= 3 {
            self.samples.push(run.trace.clone());
        }
        if let Some(v) = v {
            // at most 2 reports per distinct tag set and 12 per part, so that one kind of failure cannot crowd out another
            if self.violations.iter().filter(|x| x.tags == v.tags).count() < 2 && self.violations.len() < 12 {
                self.violations.push(v);
            }
        }
    }
}

/// scripted prefixes that reach the interesting regions quickly
pub fn seed_prefixes() -> Vec<Vec<Op>> {
    let grow = |c: usize, n: usize, first: IdSel| -> Vec<Op> {
        let mut v = vec![Op::Create(c)];
        for i in 0..n {
            v.push(Op::AddVersion(c, if i == 0 { first } else { IdSel::Latest }, i));
        }
        v
    };
    let mut out = vec![vec![], vec![Op::Create(0)]];
    for n in [1usize, 2, 6] {
        out.push(grow(0, n, IdSel::Nil));
        out.push(grow(0, n, IdSel::Fresh));
        let mut s = grow(0, n, IdSel::Nil);
        s.push(Op::AddSnap(0, IdSel::Latest, 2));
        out.push(s.clone());
        s.push(Op::AddVersion(0, IdSel::Latest, 3));
        s.push(Op::AddVersion(0, IdSel::Latest, 4));
        out.push(s);
    }
    // two clients, the second based on a version of the first
    let mut s = grow(0, 3, IdSel::Nil);
    s.push(Op::Create(1));
    s.push(Op::AddVersion(1, IdSel::ForeignLatest, 1));
    s.push(Op::AddVersion(1, IdSel::Latest, 2));
    out.push(s);
    // an OLD snapshot: more than five versions accepted after it (the snapshot is outside the window of the five most recent)
    let mut s = grow(0, 2, IdSel::Nil);
    s.push(Op::AddSnap(0, IdSel::Latest, 2));
    for i in 0..7 {
        s.push(Op::AddVersion(0, IdSel::Latest, i % PAYLOADS.len()));
    }
    out.push(s);
    // a chain started from a non-nil base with a snapshot taken AT that base (the id is no stored version of the client)
    let mut s = grow(0, 2, IdSel::Fresh);
    s.push(Op::AddSnap(0, IdSel::Base, 2));
    s.push(Op::GetSnap(0));
    out.push(s);
    // two clients that both start from the nil version (their first versions share the parent id), then both grow
    let mut s = grow(0, 2, IdSel::Nil);
    s.extend(grow(1, 2, IdSel::Nil));
    s.push(Op::AddVersion(0, IdSel::Latest, 3));
    out.push(s);
    // two clients whose snapshots carry the SAME version id (client1's chain starts at client0's latest version)
    let mut s = grow(0, 3, IdSel::Nil);
    s.push(Op::Create(1));
    s.push(Op::AddVersion(1, IdSel::ForeignLatest, 1));
    s.push(Op::AddSnap(0, IdSel::Latest, 2));
    s.push(Op::AddSnap(1, IdSel::Base, 3));
    out.push(s);
    out
}


fn op_client(op: &Op) -> usize {
    match op {
        Op::Create(c) | Op::AddVersion(c, _, _) | Op::Gcv(c, _) | Op::AddSnap(c, _, _) | Op::GetSnap(c) | Op::Age(c, _) => *c,
    }
}

fn op_foreign(op: &Op) -> bool {
    match op {
        Op::AddVersion(_, s, _) | Op::Gcv(_, s) | Op::AddSnap(_, s, _) => matches!(s, IdSel::ForeignLatest | IdSel::ForeignAncestor(_) | IdSel::ForeignBase),
        _ => false,
    }
}

/// C09 (isolation): a failure in a history that involves several clients is ALSO a C09 matter when the failing client's own
/// requests, replayed alone on a fresh server, succeed -- then the other client's data is what made the difference.
pub fn isolation_tag(kind: BackendKind, cfg: (i64, u32), executed: &[Op], v: &mut Violation) {
    let Some(last) = executed.last() else { return };
    let c = op_client(last);
    if executed.iter().all(|o| op_client(o) == c) {
        return;
    }
    // the failing client's own requests; an id that belongs to the OTHER client is, for this client alone, just an id that
    // belongs to nobody: replaced by a fresh one (only when the other client did have versions, so that it was not nil)
    let other_has_versions = executed.iter().any(|o| op_client(o) != c && matches!(o, Op::AddVersion(..)));
    if executed.iter().any(|o| op_client(o) == c && op_foreign(o)) && !other_has_versions {
        return;
    }
    let unforeign = |s: IdSel| if matches!(s, IdSel::ForeignLatest | IdSel::ForeignAncestor(_) | IdSel::ForeignBase) { IdSel::Fresh } else { s };
    let own: Vec<Op> = executed
        .iter()
        .filter(|o| op_client(o) == c)
        .map(|o| match o {
            Op::AddVersion(c, s, p) => Op::AddVersion(*c, unforeign(*s), *p),
            Op::Gcv(c, s) => Op::Gcv(*c, unforeign(*s)),
            Op::AddSnap(c, s, p) => Op::AddSnap(*c, unforeign(*s), *p),
            other => other.clone(),
        })
        .collect();
    let mut run = Run::new(kind, cfg);
    for op in &own {
        if run.step(op).is_err() {
            return;
        }
    }
    if !v.tags.contains(&"C09") {
        v.tags.push("C09");
    }
    v.what.push_str(" [isolation: the same requests of this client alone, on a fresh server, are all answered correctly: another client's data made the difference]");
}

/// C12 grid: for every small configuration, every pair (snapshot age, versions since the snapshot) around the two thresholds
/// of both measures (below the target, at it, just below / at one and a half times, well beyond): the urgency of the next
/// AddVersion must be the maximum of the two.  Exercises in particular the cells where the two measures disagree.
pub fn urgency_grid(kind: BackendKind, rep: &mut Report, budget: &mut dyn FnMut() -> bool) {
    for &(d, n) in &[(3i64, 3u32), (5, 2), (7, 5), (1, 1), (14, 4)] {
        let around = |t: i64| -> Vec<i64> {
            let mut v = vec![0, t - 1, t, t * 3 / 2 - 1, t * 3 / 2, t * 2 + 1];
            v.retain(|x| *x >= 0);
            v.sort();
            v.dedup();
            v
        };
        for age in around(d) {
            for since in around(n as i64) {
                if !budget() {
                    return;
                }
                let mut ops = vec![Op::Create(0), Op::AddVersion(0, IdSel::Nil, 0), Op::AddSnap(0, IdSel::Latest, 1)];
                for i in 0..since as usize {
                    ops.push(Op::AddVersion(0, IdSel::Latest, i % PAYLOADS.len()));
                }
                ops.push(Op::Age(0, age));
                ops.push(Op::AddVersion(0, IdSel::Latest, 1));
                let mut run = Run::new(kind, (d, n));
                run.light = true;
                let mut viol = None;
                for op in &ops {
                    if let Err(v) = run.step(op) {
                        viol = Some(v);
                        break;
                    }
                }
                rep.absorb(run, viol);
            }
        }
    }
}

/// exhaustive: every sequence of `depth` ops from the alphabet, after each seed prefix
pub fn exhaustive(kind: BackendKind, cfg: (i64, u32), prefixes: &[Vec<Op>], depth: usize, two_clients: bool, rep: &mut Report, budget: &mut dyn FnMut() -> bool) {
    let alpha = alphabet(two_clients);
    let mut idx = vec![0usize; depth];
    // op sequences in the outer loop, seed prefixes in the inner one: if the time slice runs out, every prefix has
    // been explored with the same (shorter) set of sequences
    'seqs: loop {
        for pre in prefixes {
            if !budget() || rep.violations.len() >= 12 {
                return;
            }
            let mut run = Run::new(kind, cfg);
            let mut viol = None;
            let ops: Vec<Op> = pre.iter().cloned().chain(idx.iter().map(|i| alpha[*i].clone())).collect();
            for (n, op) in ops.iter().enumerate() {
                if let Err(mut v) = run.step(op) {
                    isolation_tag(kind, cfg, &ops[..=n], &mut v);
                    viol = Some(v);
                    break;
                }
            }
            rep.absorb(run, viol);
        }
        // next index vector
        let mut k = depth;
        loop {
            if k == 0 {
                break 'seqs;
            }
            k -= 1;
            idx[k] += 1;
            if idx[k] < alpha.len() {
                break;
            }
            idx[k] = 0;
        }
        if depth == 0 {
            break;
        }
    }
}

pub struct Rng(pub u64);
impl Rng {
    pub fn next(&mut self) -> u64 {
        // splitmix64
        self.0 = self.0.wrapping_add(0x9E3779B97F4A7C15);
        let mut z = self.0;
        z = (z ^ (z >> 30)).wrapping_mul(0xBF58476D1CE4E5B9);
        z = (z ^ (z >> 27)).wrapping_mul(0x94D049BB133111EB);
        z ^ (z >> 31)
    }
    pub fn below(&mut self, n: usize) -> usize {
        (self.next() % n as u64) as usize
    }
}

pub fn random_op(rng: &mut Rng) -> Op {
    let c = if rng.below(4) == 0 { 1 } else { 0 };
    let sels = [IdSel::Nil, IdSel::Latest, IdSel::Latest, IdSel::Latest, IdSel::Ancestor(1), IdSel::Ancestor(2), IdSel::Ancestor(3), IdSel::Ancestor(4), IdSel::Ancestor(5), IdSel::Ancestor(6), IdSel::Base, IdSel::Fresh, IdSel::ForeignLatest, IdSel::ForeignAncestor(1), IdSel::ForeignBase, IdSel::SnapVersion];
    let sel = sels[rng.below(sels.len())];
    match rng.below(11) {
        10 => Op::Age(c, [0i64, 1, 2, 3, 4, 6, 7, 13, 14, 20, 21, 22][rng.below(12)]),
        0 => Op::Create(c),
        1..=4 => Op::AddVersion(c, if rng.below(3) > 0 { IdSel::Latest } else { sel }, rng.below(PAYLOADS.len())),
        5..=6 => Op::Gcv(c, sel),
        7..=8 => Op::AddSnap(c, sel, rng.below(PAYLOADS.len())),
        _ => Op::GetSnap(c),
    }
}

pub fn random_walks(kind: BackendKind, seed: u64, walks: usize, len: usize, rep: &mut Report, budget: &mut dyn FnMut() -> bool) {
    let mut rng = Rng(seed ^ 0xA5A5_5A5A_1234_5678);
    let prefixes = seed_prefixes();
    for w in 0..walks {
        if !budget() || rep.violations.len() >= 12 {
            return;
        }
        let cfg = CONFIGS[w % CONFIGS.len()];
        let mut run = Run::new(kind, cfg);
        let mut viol = None;
        let pre = &prefixes[rng.below(prefixes.len())];
        let mut ops: Vec<Op> = pre.clone();
        for _ in 0..len {
            ops.push(random_op(&mut rng));
        }
        for (n, op) in ops.iter().enumerate() {
            if let Err(mut v) = run.step(op) {
                isolation_tag(kind, cfg, &ops[..=n], &mut v);
                viol = Some(v);
                break;
            }
        }
        rep.absorb(run, viol);
    }
}
