//! Bounded HTTP-level leg (C14 C15 C16 C20 C06): requests through the REAL actix handlers, in process.
//! Oracle: model.rs for the protocol outcome + the encoding table of the property statement.
use crate::absfn;
use crate::model::*;
use crate::wrappers::{FaultPlan, FaultStorage, InterleaveStorage, Shared};
use actix_web::{test, App};
use serde_json::{json, Value};
use std::collections::{BTreeMap, HashSet};
use std::sync::{Arc, Mutex};
use taskchampion_sync_server::WebServer;
use taskchampion_sync_server_core::{AddVersionResult, InMemoryStorage, ServerConfig, Storage};
use taskchampion_sync_server_storage_sqlite::SqliteStorage;
use uuid::Uuid;

pub const HS_CT: &str = "application/vnd.taskchampion.history-segment";
pub const SNAP_CT: &str = "application/vnd.taskchampion.snapshot";
pub const LIMIT: usize = 100 * 1024 * 1024;

#[derive(Debug, Clone)]
pub struct Decoded {
    pub status: u16,
    pub headers: Vec<(String, Vec<u8>)>,
    pub body: Vec<u8>,
}

impl Decoded {
    pub fn get(&self, name: &str) -> Vec<&Vec<u8>> {
        self.headers.iter().filter(|(n, _)| n.eq_ignore_ascii_case(name)).map(|(_, v)| v).collect()
    }
    pub fn one(&self, name: &str) -> Option<String> {
        let v = self.get(name);
        if v.len() == 1 {
            String::from_utf8(v[0].clone()).ok()
        } else {
            None
        }
    }
}

#[derive(Clone, Debug)]
pub struct ReqSpec {
    pub method: &'static str,
    pub uri: String,
    pub client_id: Option<Vec<u8>>,
    pub content_type: Option<String>,
    pub chunks: Vec<Vec<u8>>,
}

/// Several requests IN FLIGHT AT ONCE on one worker: every body arrives chunk by chunk, round-robin between the
/// requests, so each handler is suspended at its payload `.await` while the others run (what a real worker does
/// with concurrent connections).  Returns the responses in request order.
pub async fn call_overlapping<S, B>(app: &S, rs: &[ReqSpec]) -> Vec<Result<Decoded, String>>
where
    S: actix_web::dev::Service<actix_http::Request, Response = actix_web::dev::ServiceResponse<B>, Error = actix_web::Error>,
    B: actix_web::body::MessageBody,
{
    let mut senders = vec![];
    let mut futs = vec![];
    for r in rs {
        let mut tr = match r.method {
            "GET" => test::TestRequest::get(),
            _ => test::TestRequest::post(),
        }
        .uri(&r.uri);
        if let Some(c) = &r.client_id {
            if let Ok(hv) = actix_web::http::header::HeaderValue::from_bytes(c) {
                tr = tr.insert_header((actix_web::http::header::HeaderName::from_static("x-client-id"), hv));
            }
        }
        if let Some(ct) = &r.content_type {
            tr = tr.insert_header(("Content-Type", ct.clone()));
        }
        let (sender, payload) = actix_http::h1::Payload::create(false);
        let req = tr.to_request();
        let (req, _) = req.replace_payload(actix_http::Payload::from(payload));
        senders.push((sender, r.chunks.clone()));
        futs.push(async move {
            match test::try_call_service(app, req).await {
                Ok(resp) => {
                    let status = resp.status().as_u16();
                    let headers = resp.headers().iter().map(|(n, v)| (n.as_str().to_string(), v.as_bytes().to_vec())).collect();
                    let body = test::read_body(resp).await.to_vec();
                    Ok(Decoded { status, headers, body })
                }
                Err(e) => {
                    let resp = e.error_response();
                    let status = resp.status().as_u16();
                    let headers = resp.headers().iter().map(|(n, v)| (n.as_str().to_string(), v.as_bytes().to_vec())).collect();
                    Ok(Decoded { status, headers, body: vec![] })
                }
            }
        });
    }
    let feeder = async move {
        let rounds = senders.iter().map(|(_, c)| c.len()).max().unwrap_or(0);
        for i in 0..=rounds {
            for (s, chunks) in senders.iter_mut() {
                if i < chunks.len() {
                    s.feed_data(actix_web::web::Bytes::from(chunks[i].clone()));
                } else if i == chunks.len() {
                    s.feed_eof();
                }
                actix_rt::task::yield_now().await;
            }
        }
    };
    let (out, _) = futures::join!(futures::future::join_all(futs), feeder);
    out
}

pub async fn call<S, B>(app: &S, r: &ReqSpec) -> Result<Decoded, String>
where
    S: actix_web::dev::Service<actix_http::Request, Response = actix_web::dev::ServiceResponse<B>, Error = actix_web::Error>,
    B: actix_web::body::MessageBody,
{
    let mut tr = match r.method {
        "GET" => test::TestRequest::get(),
        "POST" => test::TestRequest::post(),
        "PUT" => test::TestRequest::put(),
        "DELETE" => test::TestRequest::delete(),
        _ => test::TestRequest::patch(),
    }
    .uri(&r.uri);
    if let Some(c) = &r.client_id {
        // several header LINES are written as values separated by a line feed (which no header value can contain)
        for (i, part) in c.split(|b| *b == b'\n').enumerate() {
            let hv = actix_web::http::header::HeaderValue::from_bytes(part).map_err(|e| format!("header value not representable: {e}"))?;
            let name = actix_web::http::header::HeaderName::from_static("x-client-id");
            tr = if i == 0 { tr.insert_header((name, hv)) } else { tr.append_header((name, hv)) };
        }
    }
    if let Some(ct) = &r.content_type {
        tr = tr.insert_header(("Content-Type", ct.clone()));
    }
    let req = if r.chunks.len() <= 1 {
        if let Some(c) = r.chunks.first() {
            tr = tr.set_payload(c.clone());
        }
        tr.to_request()
    } else {
        let (mut sender, payload) = actix_http::h1::Payload::create(false);
        for c in &r.chunks {
            sender.feed_data(actix_web::web::Bytes::from(c.clone()));
        }
        sender.feed_eof();
        let req = tr.to_request();
        let (req, _) = req.replace_payload(actix_http::Payload::from(payload));
        req
    };
    match test::try_call_service(app, req).await {
        Ok(resp) => {
            let status = resp.status().as_u16();
            let headers = resp.headers().iter().map(|(n, v)| (n.as_str().to_string(), v.as_bytes().to_vec())).collect();
            let body = test::read_body(resp).await.to_vec();
            Ok(Decoded { status, headers, body })
        }
        Err(e) => {
            // an Err that escapes the service (e.g. from a middleware) is rendered by the HTTP dispatcher from the
            // error itself, outside every middleware of the app: that rendering is the response the client sees
            let resp = e.error_response();
            let status = resp.status().as_u16();
            let headers = resp.headers().iter().map(|(n, v)| (n.as_str().to_string(), v.as_bytes().to_vec())).collect();
            Ok(Decoded { status, headers, body: vec![] })
        }
    }
}

struct Dyn(Box<dyn Storage>);
impl Storage for Dyn {
    fn txn(&self, c: Uuid) -> anyhow::Result<Box<dyn taskchampion_sync_server_core::StorageTxn + '_>> {
        self.0.txn(c)
    }
}

pub struct Ctx {
    pub violations: Vec<Value>,
    pub requests: usize,
    pub outcomes: BTreeMap<String, usize>,
    pub samples: Vec<Value>,
    pub inconclusive: Vec<String>,
}

impl Ctx {
    fn v(&mut self, tags: &[&str], what: String, req: &ReqSpec, trace: &[String]) {
        // at most 3 reports per distinct tag set (so that one kind of failure cannot crowd out another), 40 in all
        let same = self.violations.iter().filter(|x| x["tags"] == json!(tags)).count();
        if same < 3 && self.violations.len() < 40 {
            let mut r = json!({"method": req.method, "uri": req.uri, "client_id_header": req.client_id.as_ref().map(|c| String::from_utf8_lossy(c).to_string()),
                "content_type": req.content_type, "chunk_sizes": req.chunks.iter().map(|c| c.len()).collect::<Vec<_>>()});
            if req.chunks.iter().map(|c| c.len()).sum::<usize>() <= 64 {
                r["chunks"] = json!(req.chunks);
            }
            self.violations.push(json!({"tags": tags, "what": what, "request": r, "trace": trace}));
        }
    }
    fn common(&mut self, d: &Decoded, req: &ReqSpec, trace: &[String], class: &str) {
        self.requests += 1;
        *self.outcomes.entry(format!("{} {}", class, d.status)).or_insert(0) += 1;
        // C20: every response forbids storage by caches
        let cc = d.get("cache-control");
        let ok = cc.iter().any(|v| String::from_utf8_lossy(v).split(',').any(|t| t.trim().eq_ignore_ascii_case("no-store")));
        if !ok {
            self.v(&["C20"], format!("response {} carries no `Cache-Control: no-store` (Cache-Control = {:?})", d.status, cc.iter().map(|v| String::from_utf8_lossy(v).to_string()).collect::<Vec<_>>()), req, trace);
        }
        if d.status >= 500 && class != "fault" {
            self.v(&["C15", "C14"], format!("server error {} for a request that involves no storage failure", d.status), req, trace);
        }
    }
}

fn uri_av(p: Uuid) -> String {
    format!("/v1/client/add-version/{p}")
}
fn uri_gcv(p: Uuid) -> String {
    format!("/v1/client/get-child-version/{p}")
}
fn uri_snap(v: Uuid) -> String {
    format!("/v1/client/add-snapshot/{v}")
}

fn pieces(body: &[u8], m: usize) -> Vec<Vec<u8>> {
    body.chunks(body.len() / m + 1).map(|c| c.to_vec()).collect()
}

fn split(body: &[u8], how: usize) -> Vec<Vec<u8>> {
    match how {
        0 => vec![body.to_vec()],
        1 => {
            let m = body.len() / 2;
            vec![body[..m].to_vec(), body[m..].to_vec()]
        }
        2 => body.chunks(1).map(|c| c.to_vec()).collect(),
        3 => {
            // empty chunks in between
            let m = body.len().min(1);
            vec![vec![], body[..m].to_vec(), vec![], body[m..].to_vec(), vec![]]
        }
        _ => body.chunks(4096).map(|c| c.to_vec()).collect(),
    }
}

/// the model's expectation for one protocol request, checked against the decoded response (C14 table)
struct Sess {
    model: Db,
    universe: Vec<Uuid>,
    trace: Vec<String>,
}

pub fn leg_http(thorough: bool, seed: u64) -> Value {
    let mut ctx = Ctx { violations: vec![], requests: 0, outcomes: BTreeMap::new(), samples: vec![], inconclusive: vec![] };
    let sys = actix_rt::System::new();
    let scratch = |p: &str| tempfile::Builder::new().prefix(p).tempdir_in(if std::path::Path::new("/dev/shm").is_dir() { "/dev/shm" } else { "/tmp" }).unwrap();

    // ------------------------------------------------------------------ A. protocol histories through HTTP (C14, C06)
    for backend in ["in-memory", "sqlite"] {
        let dir = scratch("tcss-http-");
        let mem = Arc::new(InMemoryStorage::new());
        let mk = || -> Box<dyn Storage> {
            if backend == "in-memory" {
                Box::new(Shared(mem.clone()))
            } else {
                Box::new(SqliteStorage::new(dir.path()).unwrap())
            }
        };
        let cfgs = [(3i64, 2u32), (14, 100)];
        for (ci, cfg) in cfgs.iter().enumerate() {
            let web = WebServer::new(ServerConfig { snapshot_days: cfg.0, snapshot_versions: cfg.1 }, None, Dyn(mk()));
            let cl = Uuid::new_v4();
            let other = Uuid::new_v4();
            let mut s = Sess { model: BTreeMap::new(), universe: vec![NIL], trace: vec![] };
            sys.block_on(async {
                let app = test::init_service(App::new().configure(|sc| web.config(sc))).await;
                let mut rng = crate::explore::Rng(seed ^ (ci as u64) << 8 ^ if backend == "sqlite" { 0x55 } else { 0 });
                let steps = if thorough { 120 } else { 45 };
                for step in 0..steps {
                    let me = if rng.below(5) == 0 { other } else { cl };
                    let c = cs(&s.model, me);
                    let n = chain_wf(&c).unwrap_or(0);
                    let pick = |rng: &mut crate::explore::Rng| -> Uuid {
                        match rng.below(7) {
                            0 => NIL,
                            1 | 2 => c.latest,
                            3 => back(&c, 1 + rng.below(5)),
                            4 => back(&c, n),
                            5 => Uuid::new_v4(),
                            _ => c.snapshot.as_ref().map(|x| x.version_id).unwrap_or(c.latest),
                        }
                    };
                    let kind = if step < 6 && me == cl { 0 } else { rng.below(10) };
                    let payload: Vec<u8> = match rng.below(5) {
                        0 => b"x".to_vec(),
                        1 => vec![0u8, 0xff, 0x00],
                        2 => b"123".to_vec(),
                        3 => (0..4097u32).map(|i| (i * 7 % 251) as u8).collect(),
                        _ => vec![0xc3, 0x28, 0xa0, 0xa1],
                    };
                    let how = rng.below(5);
                    match kind {
                        0..=3 => {
                            let p = if rng.below(3) > 0 { c.latest } else { pick(&mut rng) };
                            if !s.universe.contains(&p) {
                                s.universe.push(p); // the read-back must also ask for the child of this id
                            }
                            let r = ReqSpec { method: "POST", uri: uri_av(p), client_id: Some(me.to_string().into_bytes()), content_type: Some(HS_CT.into()), chunks: split(&payload, how) };
                            s.trace.push(format!("POST add-version parent={p} client={me} body={}B split#{how}", payload.len()));
                            let d = match call(&app, &r).await {
                                Ok(d) => d,
                                Err(e) => {
                                    ctx.inconclusive.push(e);
                                    continue;
                                }
                            };
                            ctx.common(&d, &r, &s.trace, "add-version");
                            let c0 = if c.exists { c.clone() } else { new_client_spec(NIL) };
                            if accept(&c0, p) {
                                // 200 + X-Version-Id (+ X-Snapshot-Request exactly when wanted), no X-Parent-Version-Id
                                let vid = d.one("x-version-id").and_then(|t| Uuid::parse_str(&t).ok());
                                let exp_u = match &c0.snapshot {
                                    None => Urg::High,
                                    Some(sn) => std::cmp::max(urgency_spec(cfg.0 as i128, 0), urgency_spec(cfg.1 as i128, sn.versions_since as i128)),
                                };
                                let sr = d.get("x-snapshot-request");
                                let sr_ok = match exp_u {
                                    Urg::None => sr.is_empty(),
                                    Urg::Low => sr.len() == 1 && sr[0] == b"urgency=low",
                                    Urg::High => sr.len() == 1 && sr[0] == b"urgency=high",
                                };
                                if d.status != 200 || vid.is_none() || !d.get("x-parent-version-id").is_empty() {
                                    ctx.v(&["C14", "C02"], format!("acceptable add-version answered {} with headers {:?}", d.status, d.headers.iter().map(|(n, _)| n.clone()).collect::<Vec<_>>()), &r, &s.trace);
                                    break;
                                }
                                if !sr_ok {
                                    ctx.v(&["C14", "C12"], format!("X-Snapshot-Request = {:?}, expected urgency {:?}", sr.iter().map(|v| String::from_utf8_lossy(v).to_string()).collect::<Vec<_>>(), exp_u), &r, &s.trace);
                                }
                                let v = vid.unwrap();
                                if v == NIL || s.universe.contains(&v) {
                                    ctx.v(&["C02"], format!("new version id {v} is nil or was issued before"), &r, &s.trace);
                                }
                                s.universe.push(v);
                                s.model.insert(me, add_version_spec(&c0, v, p, &payload));
                            } else {
                                let pv = d.one("x-parent-version-id").and_then(|t| Uuid::parse_str(&t).ok());
                                if d.status != 409 || pv != Some(c0.latest) || !d.get("x-version-id").is_empty() || !d.get("x-snapshot-request").is_empty() {
                                    ctx.v(&["C14", "C02"], format!("conflicting add-version answered {} X-Parent-Version-Id={:?}, expected 409 naming {}", d.status, pv, c0.latest), &r, &s.trace);
                                    break;
                                }
                                s.model.insert(me, c0);
                            }
                        }
                        4..=5 => {
                            let p = pick(&mut rng);
                            let r = ReqSpec { method: "GET", uri: uri_gcv(p), client_id: Some(me.to_string().into_bytes()), content_type: None, chunks: vec![] };
                            s.trace.push(format!("GET get-child-version parent={p} client={me}"));
                            let d = match call(&app, &r).await {
                                Ok(d) => d,
                                Err(e) => {
                                    ctx.inconclusive.push(e);
                                    continue;
                                }
                            };
                            ctx.common(&d, &r, &s.trace, "get-child-version");
                            let ok = match gcv_spec(&c, p) {
                                Gcv::Found(v) => {
                                    d.status == 200
                                        && d.one("x-version-id") == Some(v.version_id.to_string())
                                        && d.one("x-parent-version-id") == Some(v.parent_version_id.to_string())
                                        && d.one("content-type").as_deref() == Some(HS_CT)
                                        && d.body == v.history_segment
                                }
                                Gcv::NotFound | Gcv::NoSuchClient => d.status == 404 && d.get("x-version-id").is_empty(),
                                Gcv::Gone => d.status == 410 && d.get("x-version-id").is_empty(),
                            };
                            if !ok {
                                ctx.v(&["C14", "C08", "C06"], format!("get-child-version answered {} ({} body bytes, headers {:?}), contract outcome {:?}", d.status, d.body.len(),
                                    d.headers.iter().filter(|(n, _)| n.starts_with("x-") || n == "content-type").map(|(n, v)| format!("{n}={}", String::from_utf8_lossy(v))).collect::<Vec<_>>(), gcv_spec(&c, p)), &r, &s.trace);
                                break;
                            }
                        }
                        6..=7 => {
                            let v = pick(&mut rng);
                            let r = ReqSpec { method: "POST", uri: uri_snap(v), client_id: Some(me.to_string().into_bytes()), content_type: Some(SNAP_CT.into()), chunks: split(&payload, how) };
                            s.trace.push(format!("POST add-snapshot version={v} client={me} body={}B split#{how}", payload.len()));
                            let d = match call(&app, &r).await {
                                Ok(d) => d,
                                Err(e) => {
                                    ctx.inconclusive.push(e);
                                    continue;
                                }
                            };
                            ctx.common(&d, &r, &s.trace, "add-snapshot");
                            let exp = if c.exists { 200 } else { 404 };
                            if d.status != exp {
                                ctx.v(&["C14", "C10"], format!("add-snapshot answered {}, expected {exp}", d.status), &r, &s.trace);
                                break;
                            }
                            if c.exists && snap_should_accept(&c, v) {
                                s.model.insert(me, set_snapshot_spec(&c, v, 0, &payload));
                            } else if c.exists && snap_corner(&c, v) {
                                let probe = mk();
                                if let Ok(real) = absfn::via_api(probe.as_ref(), me, &s.universe) {
                                    let applied = set_snapshot_spec(&c, v, 0, &payload);
                                    if real == applied {
                                        s.model.insert(me, applied);
                                    }
                                }
                            }
                        }
                        _ => {
                            let r = ReqSpec { method: "GET", uri: "/v1/client/snapshot".into(), client_id: Some(me.to_string().into_bytes()), content_type: None, chunks: vec![] };
                            s.trace.push(format!("GET snapshot client={me}"));
                            let d = match call(&app, &r).await {
                                Ok(d) => d,
                                Err(e) => {
                                    ctx.inconclusive.push(e);
                                    continue;
                                }
                            };
                            ctx.common(&d, &r, &s.trace, "get-snapshot");
                            let ok = match (&c.snapshot, &c.snapshot_data) {
                                (Some(sn), Some(data)) => d.status == 200 && d.one("x-version-id") == Some(sn.version_id.to_string()) && d.one("content-type").as_deref() == Some(SNAP_CT) && &d.body == data,
                                _ => d.status == 404 && d.get("x-version-id").is_empty(),
                            };
                            if !ok {
                                ctx.v(&["C14", "C11", "C06"], format!("get-snapshot answered {} ({} body bytes), model snapshot {:?}", d.status, d.body.len(), c.snapshot), &r, &s.trace);
                                break;
                            }
                        }
                    }
                    // stored state equals the contract's (covers C06 at rest, C18 for non-mutating outcomes)
                    let probe = mk();
                    for who in [cl, other] {
                        match absfn::via_api(probe.as_ref(), who, &s.universe) {
                            Ok(real) => {
                                if real != cs(&s.model, who) {
                                    let r = ReqSpec { method: "-", uri: "-".into(), client_id: None, content_type: None, chunks: vec![] };
                                    ctx.v(&["C06", "C18", "C14", "C02"], format!("after the request the stored state differs from the contract state: real {:?} expected {:?}", real, cs(&s.model, who)), &r, &s.trace);
                                }
                            }
                            Err(e) => ctx.inconclusive.push(format!("probe: {e}")),
                        }
                    }
                    if !ctx.violations.is_empty() {
                        break;
                    }
                }
            });
            if ctx.samples.len() < 2 {
                ctx.samples.push(json!({"backend": backend, "trace_head": s.trace.iter().take(6).collect::<Vec<_>>()}));
            }
        }
    }

    // ------------------------------------------------------------------ B. malformed / oversized requests (C15, C18), allow-lists (C16)
    let listed = Uuid::new_v4();
    let listed2 = Uuid::new_v4();
    let unlisted = Uuid::new_v4();
    let allowlists: Vec<(&str, Option<HashSet<Uuid>>)> = vec![
        ("none", None),
        ("empty", Some(HashSet::new())),
        ("one", Some([listed].into_iter().collect())),
        ("many", Some([listed, listed2].into_iter().collect())),
    ];
    for (lname, list) in &allowlists {
        let mem = Arc::new(InMemoryStorage::new());
        // every client owns data from before the list was introduced
        let mut latest: BTreeMap<Uuid, Uuid> = BTreeMap::new();
        {
            let srv = taskchampion_sync_server_core::Server::new(ServerConfig::default(), Shared(mem.clone()));
            for c in [listed, listed2, unlisted] {
                {
                    let mut t = srv.txn(c).unwrap();
                    t.new_client(NIL).unwrap();
                    t.commit().unwrap();
                }
                let mut l = NIL;
                for i in 0..2 {
                    if let Ok((taskchampion_sync_server_core::AddVersionResult::Ok(v), _)) = srv.add_version(c, l, vec![i as u8 + 1]) {
                        l = v;
                    }
                }
                srv.add_snapshot(c, l, b"snap".to_vec()).unwrap();
                latest.insert(c, l);
            }
        }
        let counter = Arc::new(Mutex::new(0usize));
        let hook = {
            let counter = counter.clone();
            Box::new(move |_k: usize| {
                *counter.lock().unwrap() += 1;
            })
        };
        let st = InterleaveStorage { inner: Shared(mem.clone()), count: Mutex::new(0), hook };
        let web = WebServer::new(ServerConfig::default(), list.clone(), st);
        let universe: Vec<Uuid> = {
            let mut u = vec![NIL];
            let p = Shared(mem.clone());
            for c in [listed, listed2, unlisted] {
                let mut t = p.txn(c).unwrap();
                let mut x = latest[&c];
                while x != NIL {
                    u.push(x);
                    x = t.get_version(x).unwrap().map(|v| v.parent_version_id).unwrap_or(NIL);
                }
            }
            u
        };
        let snapshot_all = |mem: &Arc<InMemoryStorage>| -> Vec<CState> { [listed, listed2, unlisted].iter().map(|c| absfn::via_api(&Shared(mem.clone()), *c, &universe).unwrap()).collect() };
        sys.block_on(async {
            let app = test::init_service(App::new().configure(|sc| web.config(sc))).await;
            let is_allowed = |id: Uuid| list.as_ref().map(|l| l.contains(&id)).unwrap_or(true);
            // client-id header forms
            let l = listed;
            let mut id_forms: Vec<(String, Option<Vec<u8>>)> = vec![
                ("absent".into(), None),
                ("empty".into(), Some(vec![])),
                ("non-ascii".into(), Some(vec![0xff, 0xfe, 0x80])),
                ("utf8-non-ascii".into(), Some("é1234567-89ab-4cde-8f01-23456789abcd".as_bytes().to_vec())),
                ("too-short".into(), Some(b"1234".to_vec())),
                ("too-long".into(), Some(format!("{l}0").into_bytes())),
                ("bad-hex".into(), Some(l.to_string().replace(|c: char| c.is_ascii_hexdigit(), "g").into_bytes())),
                ("hyphenated-listed".into(), Some(l.hyphenated().to_string().into_bytes())),
                ("braced-listed".into(), Some(l.braced().to_string().into_bytes())),
                ("urn-listed".into(), Some(l.urn().to_string().into_bytes())),
                ("simple-listed".into(), Some(l.simple().to_string().into_bytes())),
                ("upper-listed".into(), Some(l.to_string().to_uppercase().into_bytes())),
                ("listed2".into(), Some(listed2.to_string().into_bytes())),
                ("unlisted".into(), Some(unlisted.to_string().into_bytes())),
                ("unlisted-braced".into(), Some(unlisted.braced().to_string().into_bytes())),
                ("padded".into(), Some(format!(" {l}").into_bytes())),
                // an unlisted id crafted from listed ones: high half of one, low half of the other
                ("mix-of-listed".into(), Some(Uuid::from_u128((listed.as_u128() & 0xffff_ffff_ffff_ffff_0000_0000_0000_0000) | (listed2.as_u128() & 0xffff_ffff_ffff_ffff)).to_string().into_bytes())),
                ("bitwise-and-of-listed".into(), Some(Uuid::from_u128(listed.as_u128() & listed2.as_u128()).to_string().into_bytes())),
            ];
            if !thorough {
                id_forms.retain(|(n, _)| !matches!(n.as_str(), "utf8-non-ascii" | "too-long" | "upper-listed" | "unlisted-braced"));
            }
            for (fname, form) in &id_forms {
                // the reference semantics of the header: visible ASCII + uuid::Uuid::parse_str
                let parsed: Option<Uuid> = form.as_ref().and_then(|b| {
                    let hv = actix_web::http::header::HeaderValue::from_bytes(b).ok()?;
                    let s = hv.to_str().ok()?;
                    Uuid::parse_str(s).ok()
                });
                let who = parsed.unwrap_or(l);
                let lat = latest.get(&who).cloned().unwrap_or(NIL);
                let endpoints: Vec<(&str, ReqSpec)> = vec![
                    ("add-version", ReqSpec { method: "POST", uri: uri_av(lat), client_id: form.clone(), content_type: Some(HS_CT.into()), chunks: vec![b"zz".to_vec()] }),
                    ("get-child-version", ReqSpec { method: "GET", uri: uri_gcv(NIL), client_id: form.clone(), content_type: None, chunks: vec![] }),
                    ("add-snapshot", ReqSpec { method: "POST", uri: uri_snap(lat), client_id: form.clone(), content_type: Some(SNAP_CT.into()), chunks: vec![b"s2".to_vec()] }),
                    ("get-snapshot", ReqSpec { method: "GET", uri: "/v1/client/snapshot".into(), client_id: form.clone(), content_type: None, chunks: vec![] }),
                ];
                for (ep, r) in endpoints {
                    let before = snapshot_all(&mem);
                    let txns0 = *counter.lock().unwrap();
                    let tr = vec![format!("allow-list={lname}; client-id form={fname}; endpoint={ep}")];
                    let d = match call(&app, &r).await {
                        Ok(d) => d,
                        Err(e) => {
                            if form.as_ref().map(|b| actix_web::http::header::HeaderValue::from_bytes(b).is_err()).unwrap_or(false) {
                                continue;
                            }
                            ctx.inconclusive.push(e);
                            continue;
                        }
                    };
                    ctx.common(&d, &r, &tr, &format!("id-form {}", if parsed.is_some() { "valid" } else { "invalid" }));
                    let after = snapshot_all(&mem);
                    let txns = *counter.lock().unwrap() - txns0;
                    match parsed {
                        None => {
                            if d.status != 400 || after != before || txns != 0 {
                                ctx.v(&["C15", "C18"], format!("malformed client id answered {} (expected 400), state changed: {}, transactions opened: {txns}", d.status, after != before), &r, &tr);
                            }
                        }
                        Some(id) if !is_allowed(id) => {
                            if d.status != 403 || after != before || txns != 0 {
                                ctx.v(&["C16", "C18"], format!("client id {id} is not on the allow-list ({lname}) but the request was answered {} (expected 403); state changed: {}; transactions opened: {txns}", d.status, after != before), &r, &tr);
                            }
                        }
                        Some(_id) => {
                            // served exactly as if no list existed
                            // a well-formed id that owned nothing before is a new client: its snapshot request names nil and is declined
                            let owns_data = [listed, listed2, unlisted].contains(&who);
                            let exp: &[u16] = match ep {
                                "add-version" => &[200],
                                "get-child-version" => &[200],
                                "add-snapshot" => &[200],
                                _ => if owns_data { &[200] } else { &[200, 404] },
                            };
                            if !exp.contains(&d.status) {
                                ctx.v(&["C16", "C15", "C14"], format!("allowed, well-formed client id (form {fname}) answered {} on {ep}, expected {:?}", d.status, exp), &r, &tr);
                            }
                            if ep == "add-version" {
                                if let Some(v) = d.one("x-version-id").and_then(|t| Uuid::parse_str(&t).ok()) {
                                    latest.insert(who, v);
                                }
                            }
                        }
                    }
                }
            }
            // other malformed requests: none may be a 5xx, none may change state; each a 4xx
            let cid = Some(l.to_string().into_bytes());
            let lat = latest[&l];
            let mut bad: Vec<(&str, ReqSpec, &[u16])> = vec![
                ("wrong content type (add-version)", ReqSpec { method: "POST", uri: uri_av(lat), client_id: cid.clone(), content_type: Some("text/plain".into()), chunks: vec![b"x".to_vec()] }, &[400]),
                ("no content type (add-version)", ReqSpec { method: "POST", uri: uri_av(lat), client_id: cid.clone(), content_type: None, chunks: vec![b"x".to_vec()] }, &[400]),
                ("snapshot content type on add-version", ReqSpec { method: "POST", uri: uri_av(lat), client_id: cid.clone(), content_type: Some(SNAP_CT.into()), chunks: vec![b"x".to_vec()] }, &[400]),
                ("wrong content type (add-snapshot)", ReqSpec { method: "POST", uri: uri_snap(lat), client_id: cid.clone(), content_type: Some(HS_CT.into()), chunks: vec![b"x".to_vec()] }, &[400]),
                ("empty body (add-version)", ReqSpec { method: "POST", uri: uri_av(lat), client_id: cid.clone(), content_type: Some(HS_CT.into()), chunks: vec![] }, &[400]),
                ("empty body in empty chunks (add-version)", ReqSpec { method: "POST", uri: uri_av(lat), client_id: cid.clone(), content_type: Some(HS_CT.into()), chunks: vec![vec![], vec![]] }, &[400]),
                ("empty body (add-snapshot)", ReqSpec { method: "POST", uri: uri_snap(lat), client_id: cid.clone(), content_type: Some(SNAP_CT.into()), chunks: vec![] }, &[400]),
                ("malformed path id (add-version)", ReqSpec { method: "POST", uri: "/v1/client/add-version/not-a-uuid".into(), client_id: cid.clone(), content_type: Some(HS_CT.into()), chunks: vec![b"x".to_vec()] }, &[400, 404]),
                ("malformed path id (get-child-version)", ReqSpec { method: "GET", uri: "/v1/client/get-child-version/1234".into(), client_id: cid.clone(), content_type: None, chunks: vec![] }, &[400, 404]),
                ("malformed path id (add-snapshot)", ReqSpec { method: "POST", uri: "/v1/client/add-snapshot/zzz".into(), client_id: cid.clone(), content_type: Some(SNAP_CT.into()), chunks: vec![b"x".to_vec()] }, &[400, 404]),
                ("unknown route", ReqSpec { method: "GET", uri: "/v1/client/nope".into(), client_id: cid.clone(), content_type: None, chunks: vec![] }, &[404]),
                ("unknown route 2", ReqSpec { method: "POST", uri: "/v2/client/add-version/".into(), client_id: cid.clone(), content_type: Some(HS_CT.into()), chunks: vec![b"x".to_vec()] }, &[404]),
                ("wrong method (GET add-version)", ReqSpec { method: "GET", uri: uri_av(lat), client_id: cid.clone(), content_type: None, chunks: vec![] }, &[404, 405]),
                ("wrong method (POST snapshot)", ReqSpec { method: "POST", uri: "/v1/client/snapshot".into(), client_id: cid.clone(), content_type: Some(SNAP_CT.into()), chunks: vec![b"x".to_vec()] }, &[404, 405]),
                ("wrong method (DELETE get-child-version)", ReqSpec { method: "DELETE", uri: uri_gcv(lat), client_id: cid.clone(), content_type: None, chunks: vec![] }, &[404, 405]),
            ];
            if *lname != "none" && *lname != "one" {
                bad.truncate(6);
            }
            // the same refused requests under a well-formed client id the server has never seen: nothing may be created
            let mut bad2: Vec<(&str, ReqSpec, &[u16])> = vec![];
            for (name, r, exp) in bad.iter() {
                if is_allowed(l) && list.is_none() {
                    let newcomer = Uuid::new_v4();
                    let mut r2 = r.clone();
                    r2.client_id = Some(newcomer.to_string().into_bytes());
                    let tr = vec![format!("allow-list={lname}; {name}; client id never seen before")];
                    if let Ok(d) = call(&app, &r2).await {
                        ctx.common(&d, &r2, &tr, "malformed-newcomer");
                        let after = absfn::via_api(&Shared(mem.clone()), newcomer, &universe).unwrap();
                        if !(400..500).contains(&d.status) || after.exists {
                            ctx.v(&["C15", "C18"], format!("{name} from a never-seen client: answered {} (expected 4xx); a client record was created: {}", d.status, after.exists), &r2, &tr);
                        }
                    }
                }
                bad2.push((*name, r.clone(), *exp));
            }
            for (name, r, exp) in bad2 {
                let before = snapshot_all(&mem);
                let tr = vec![format!("allow-list={lname}; {name}")];
                let d = match call(&app, &r).await {
                    Ok(d) => d,
                    Err(e) => {
                        ctx.inconclusive.push(e);
                        continue;
                    }
                };
                ctx.common(&d, &r, &tr, "malformed");
                let after = snapshot_all(&mem);
                let allowed_here = is_allowed(l);
                let ok_status = exp.contains(&d.status) || (!allowed_here && d.status == 403);
                if !ok_status || after != before {
                    ctx.v(&["C15", "C18"], format!("{name}: answered {} (expected one of {:?}); state changed: {}", d.status, exp, after != before), &r, &tr);
                }
            }
        });
    }

    // ------------------------------------------------------------------ C. size limit (C15) and large payload fidelity (C06)
    {
        let mem = Arc::new(InMemoryStorage::new());
        let web = WebServer::new(ServerConfig::default(), None, Shared(mem.clone()));
        let cl = Uuid::new_v4();
        sys.block_on(async {
            let app = test::init_service(App::new().configure(|sc| web.config(sc))).await;
            let mut latest = NIL;
            let mut sizes: Vec<(usize, usize)> = vec![(1, 0), (4095, 1), (4096, 4), (4097, 2), (4098, 3), (65536, 4), ((1 << 20) + 1, 1), (3 * (1 << 20) - 1, 5), (LIMIT, 5), (LIMIT + 1, 5), (LIMIT + 1, 0)];
            if thorough {
                sizes.extend([(65535, 1), (1 << 20, 4), (LIMIT - 1, 5), (LIMIT, 0), (LIMIT + (1 << 20), 5)]);
            }
            for (ep, ct) in [("add-version", HS_CT), ("add-snapshot", SNAP_CT)] {
                for &(size, how) in &sizes {
                    let body: Vec<u8> = (0..size).map(|i| (i.wrapping_mul(31) % 256) as u8).collect();
                    let chunks: Vec<Vec<u8>> = match how {
                        5 => body.chunks(1 << 20).map(|c| c.to_vec()).collect(),
                        h => split(&body, h),
                    };
                    if ep == "add-snapshot" {
                        // a fresh latest version for every snapshot, so that each one is accepted (a snapshot of the latest version always is)
                        let r0 = ReqSpec { method: "POST", uri: uri_av(latest), client_id: Some(cl.to_string().into_bytes()), content_type: Some(HS_CT.into()), chunks: vec![b"v".to_vec()] };
                        match call(&app, &r0).await.ok().and_then(|d| d.one("x-version-id")).and_then(|t| Uuid::parse_str(&t).ok()) {
                            Some(v) => latest = v,
                            None => continue,
                        }
                    }
                    let uri = if ep == "add-version" { uri_av(latest) } else { uri_snap(latest) };
                    let r = ReqSpec { method: "POST", uri, client_id: Some(cl.to_string().into_bytes()), content_type: Some(ct.into()), chunks };
                    let tr = vec![format!("{ep} with a body of {size} bytes in {} chunk(s)", r.chunks.len())];
                    let d = match call(&app, &r).await {
                        Ok(d) => d,
                        Err(e) => {
                            ctx.inconclusive.push(e);
                            continue;
                        }
                    };
                    ctx.common(&d, &r, &tr, "size");
                    if size > LIMIT {
                        if !(400..500).contains(&d.status) {
                            ctx.v(&["C15"], format!("body of {size} bytes (limit {LIMIT}) answered {}, expected 4xx", d.status), &r, &tr);
                        }
                        continue;
                    }
                    if d.status != 200 {
                        ctx.v(&["C15", "C06"], format!("body of {size} bytes (limit {LIMIT}, inclusive) answered {}, expected 200", d.status), &r, &tr);
                        continue;
                    }
                    // read it back byte for byte
                    if ep == "add-version" {
                        let v = d.one("x-version-id").and_then(|t| Uuid::parse_str(&t).ok()).unwrap_or(NIL);
                        let g = ReqSpec { method: "GET", uri: uri_gcv(latest), client_id: Some(cl.to_string().into_bytes()), content_type: None, chunks: vec![] };
                        if let Ok(gd) = call(&app, &g).await {
                            ctx.common(&gd, &g, &tr, "size-readback");
                            if gd.status != 200 || gd.body != body || gd.one("x-version-id") != Some(v.to_string()) || gd.one("x-parent-version-id") != Some(latest.to_string()) {
                                ctx.v(&["C06"], format!("version uploaded with {size} bytes in {} chunks reads back as {} bytes (status {}), ids {:?}/{:?}", r.chunks.len(), gd.body.len(), gd.status, gd.one("x-version-id"), gd.one("x-parent-version-id")), &r, &tr);
                            }
                        }
                        latest = v;
                    } else {
                        let g = ReqSpec { method: "GET", uri: "/v1/client/snapshot".into(), client_id: Some(cl.to_string().into_bytes()), content_type: None, chunks: vec![] };
                        if let Ok(gd) = call(&app, &g).await {
                            ctx.common(&gd, &g, &tr, "size-readback");
                            if gd.status != 200 || gd.one("x-version-id") != Some(latest.to_string()) || gd.body != body {
                                ctx.v(&["C06", "C11"], format!("snapshot of {size} bytes uploaded in {} chunks for the latest version reads back as {} bytes (status {}, version {:?}){}", r.chunks.len(), gd.body.len(), gd.status, gd.one("x-version-id"), if gd.body.len() == size { ", different bytes" } else { "" }), &r, &tr);
                            }
                        }
                    }
                }
            }
        });
    }

    // ------------------------------------------------------------------ D. first request of a never-seen client (C06 C14), storage failures (C05 C20)
    for backend in ["in-memory", "sqlite"] {
        let dir = scratch("tcss-http2-");
        let mem = Arc::new(InMemoryStorage::new());
        let mk = || -> Box<dyn Storage> {
            if backend == "in-memory" {
                Box::new(Shared(mem.clone()))
            } else {
                Box::new(SqliteStorage::new(dir.path()).unwrap())
            }
        };
        let web = WebServer::new(ServerConfig::default(), None, Dyn(mk()));
        sys.block_on(async {
            let app = test::init_service(App::new().configure(|sc| web.config(sc))).await;
            for how in 0..4usize {
                let cl = Uuid::new_v4();
                let body: Vec<u8> = (0..5000u32).map(|i| (i % 253) as u8).collect();
                // unknown client: get-child-version / get-snapshot / add-snapshot are 404
                for (name, r) in [
                    ("get-child-version", ReqSpec { method: "GET", uri: uri_gcv(NIL), client_id: Some(cl.to_string().into_bytes()), content_type: None, chunks: vec![] }),
                    ("get-snapshot", ReqSpec { method: "GET", uri: "/v1/client/snapshot".into(), client_id: Some(cl.to_string().into_bytes()), content_type: None, chunks: vec![] }),
                    ("add-snapshot", ReqSpec { method: "POST", uri: uri_snap(Uuid::new_v4()), client_id: Some(cl.to_string().into_bytes()), content_type: Some(SNAP_CT.into()), chunks: vec![b"s".to_vec()] }),
                ] {
                    let tr = vec![format!("{backend}: {name} for a client the server has never seen")];
                    if let Ok(d) = call(&app, &r).await {
                        ctx.common(&d, &r, &tr, "unknown-client");
                        if d.status != 404 {
                            ctx.v(&["C14"], format!("{name} for a never-seen client answered {}, expected 404", d.status), &r, &tr);
                        }
                    }
                }
                let parent = if how % 2 == 0 { NIL } else { Uuid::new_v4() };
                let r = ReqSpec { method: "POST", uri: uri_av(parent), client_id: Some(cl.to_string().into_bytes()), content_type: Some(HS_CT.into()), chunks: split(&body, how) };
                let tr = vec![format!("{backend}: first add-version ever for a new client (parent {parent}), body 5000 bytes split#{how}")];
                if let Ok(d) = call(&app, &r).await {
                    ctx.common(&d, &r, &tr, "new-client");
                    let v = d.one("x-version-id").and_then(|t| Uuid::parse_str(&t).ok());
                    if d.status != 200 || v.is_none() {
                        ctx.v(&["C14", "C02"], format!("first add-version of a new client answered {}", d.status), &r, &tr);
                        continue;
                    }
                    if parent != NIL {
                        // a chain started from a non-nil base: the nil id has no child and AddVersion(nil) would be a conflict,
                        // so GetChildVersion(nil) is GONE (410), not not-found (C08, C14)
                        let g0 = ReqSpec { method: "GET", uri: uri_gcv(NIL), client_id: Some(cl.to_string().into_bytes()), content_type: None, chunks: vec![] };
                        if let Ok(gd) = call(&app, &g0).await {
                            ctx.common(&gd, &g0, &tr, "nil-of-non-nil-base");
                            if gd.status != 410 {
                                ctx.v(&["C14", "C08"], format!("GetChildVersion(nil) for a client whose chain started from the non-nil base {parent} answered {} (expected 410: AddVersion(nil) would be rejected)", gd.status), &g0, &tr);
                            }
                        }
                    }
                    let g = ReqSpec { method: "GET", uri: uri_gcv(parent), client_id: Some(cl.to_string().into_bytes()), content_type: None, chunks: vec![] };
                    if let Ok(gd) = call(&app, &g).await {
                        ctx.common(&gd, &g, &tr, "new-client-readback");
                        if gd.status != 200 || gd.body != body || gd.one("x-version-id") != v.map(|v| v.to_string()) {
                            ctx.v(&["C06", "C14", "C01", "C02"], format!("the first version of a new client reads back as {} bytes (status {}), uploaded {}", gd.body.len(), gd.status, body.len()), &r, &tr);
                        }
                    }
                }
            }
        });
    }
    // the first AddVersion ever of a never-seen client with a NON-NIL parent, with each storage call of the request
    // failing in turn: 500, and the client is left either absent, empty, or with exactly that version (C05, C02, C01)
    {
        let dir = scratch("tcss-http4-");
        for fail_at in 0..11usize {
            for after in [false, true] {
                let st = SqliteStorage::new(dir.path()).unwrap();
                let plan = Arc::new(Mutex::new(FaultPlan::default()));
                let cl = Uuid::new_v4();
                let parent = Uuid::new_v4();
                let web = WebServer::new(ServerConfig::default(), None, FaultStorage { inner: st, plan: plan.clone() });
                sys.block_on(async {
                    let app = test::init_service(App::new().configure(|sc| web.config(sc))).await;
                    {
                        let mut p = plan.lock().unwrap();
                        let b = p.calls;
                        p.fail_at = vec![b + fail_at];
                        p.after_effect = after;
                        p.injected = 0;
                        p.trace.clear();
                    }
                    let r = ReqSpec { method: "POST", uri: uri_av(parent), client_id: Some(cl.to_string().into_bytes()), content_type: Some(HS_CT.into()), chunks: vec![b"first".to_vec()] };
                    let (inj, calls) = {
                        let d = call(&app, &r).await;
                        let p = plan.lock().unwrap();
                        let tr = vec![format!("first add-version of a never-seen client (parent {parent}); storage call #{fail_at} of the request fails {} taking effect; calls made: {:?}", if after { "after" } else { "before" }, p.trace)];
                        if let Ok(d) = &d {
                            ctx.common(d, &r, &tr, "fault");
                            if p.injected > 0 && d.status != 500 {
                                // a 409 here is additionally a C02 matter: the request is "rejected" although a step of it may have taken effect
                                ctx.v(if d.status == 409 { &["C05", "C14", "C02", "C18"] } else { &["C05", "C14"] }, format!("a storage call failed but the response is {} (expected 500)", d.status), &r, &tr);
                            }
                        }
                        (p.injected, tr)
                    };
                    plan.lock().unwrap().fail_at.clear();
                    if inj > 0 {
                        let raw = absfn::via_raw_sql(dir.path()).unwrap();
                        let c = cs(&raw.db, cl);
                        let ok = !c.exists || (c.latest == NIL && c.versions.is_empty()) || (c.versions.len() == 1 && chain_wf(&c).is_ok() && c.versions.values().next().map(|v| v.parent_version_id == parent && v.history_segment == b"first".to_vec()).unwrap_or(false));
                        if !ok || !raw.anomalies.is_empty() {
                            ctx.v(&["C05", "C02", "C01", "C03"], format!("after the failed request the new client is left in a state that is neither 'before' nor 'after': {:?} {:?}", c, raw.anomalies), &r, &calls);
                        }
                        // later requests are served normally: the same request again must now succeed and be readable
                        if let Ok(d2) = call(&app, &r).await {
                            ctx.common(&d2, &r, &calls, "after-fault");
                            let c2 = cs(&absfn::via_raw_sql(dir.path()).unwrap().db, cl);
                            let fine = (d2.status == 200 || d2.status == 409) && chain_wf(&c2).is_ok();
                            if !fine {
                                ctx.v(&["C05", "C02"], format!("the request repeated after the failure is answered {} and leaves {:?}", d2.status, chain_wf(&c2)), &r, &calls);
                            }
                        }
                    }
                });
            }
        }
    }
    // a RESTART: a second WebServer constructed on the same data directory (allow-list absent / containing the client) serves
    // exactly the history the first one acknowledged -- versions, latest pointer, snapshot (C07, C11, C01, C13, C17)
    for with_list in [false, true] {
        let dir = scratch("tcss-http6-");
        let cl = Uuid::new_v4();
        let allow: Option<HashSet<Uuid>> = if with_list { Some([cl, Uuid::new_v4()].into_iter().collect()) } else { None };
        let mut acked: Vec<(Uuid, Uuid, Vec<u8>)> = vec![];
        let mut snap: Option<(Uuid, Vec<u8>)> = None;
        for generation in 0..3usize {
            let web = WebServer::new(ServerConfig::default(), allow.clone(), SqliteStorage::new(dir.path()).unwrap());
            sys.block_on(async {
                let app = test::init_service(App::new().configure(|sc| web.config(sc))).await;
                let tr = vec![format!("sqlite, allow-list {}: WebServer #{} constructed on the same data directory", if with_list { "containing the client" } else { "absent" }, generation + 1)];
                // everything acknowledged by earlier generations is still served
                for (par, ver, body) in &acked {
                    let g = ReqSpec { method: "GET", uri: uri_gcv(*par), client_id: Some(cl.to_string().into_bytes()), content_type: None, chunks: vec![] };
                    if let Ok(d) = call(&app, &g).await {
                        ctx.common(&d, &g, &tr, "restart-readback");
                        if d.status != 200 || d.one("x-version-id") != Some(ver.to_string()) || &d.body != body {
                            ctx.v(&["C07", "C01", "C13", "C17"], format!("after a restart the acknowledged version {ver} (child of {par}) is answered {} {:?}", d.status, d.one("x-version-id")), &g, &tr);
                            break;
                        }
                    }
                }
                if let Some((sv, sdata)) = &snap {
                    let g = ReqSpec { method: "GET", uri: "/v1/client/snapshot".into(), client_id: Some(cl.to_string().into_bytes()), content_type: None, chunks: vec![] };
                    if let Ok(d) = call(&app, &g).await {
                        ctx.common(&d, &g, &tr, "restart-snapshot");
                        if d.status != 200 || d.one("x-version-id") != Some(sv.to_string()) || &d.body != sdata {
                            ctx.v(&["C11", "C13", "C17"], format!("after a restart the accepted snapshot at {sv} is answered {} {:?} ({} bytes)", d.status, d.one("x-version-id"), d.body.len()), &g, &tr);
                        }
                    }
                }
                // continue the chain
                let mut parent = acked.last().map(|a| a.1).unwrap_or(NIL);
                for k in 0..2usize {
                    let body = format!("gen{generation}-v{k}").into_bytes();
                    let r = ReqSpec { method: "POST", uri: uri_av(parent), client_id: Some(cl.to_string().into_bytes()), content_type: Some(HS_CT.into()), chunks: vec![body.clone()] };
                    if let Ok(d) = call(&app, &r).await {
                        ctx.common(&d, &r, &tr, "restart-add");
                        match d.one("x-version-id").and_then(|t| Uuid::parse_str(&t).ok()) {
                            Some(v) if d.status == 200 => {
                                acked.push((parent, v, body));
                                parent = v;
                            }
                            _ => {
                                ctx.v(&["C02", "C07", "C13", "C17"], format!("after a restart AddVersion on the acknowledged latest version {parent} is answered {}", d.status), &r, &tr);
                                break;
                            }
                        }
                    }
                }
                let sdata = format!("snapshot-gen{generation}").into_bytes();
                let r = ReqSpec { method: "POST", uri: uri_snap(parent), client_id: Some(cl.to_string().into_bytes()), content_type: Some(SNAP_CT.into()), chunks: vec![sdata.clone()] };
                if let Ok(d) = call(&app, &r).await {
                    ctx.common(&d, &r, &tr, "restart-snap");
                    if d.status == 200 {
                        snap = Some((parent, sdata));
                    }
                }
            });
        }
    }
    // X-Client-Id sent TWICE, an unlisted id first and a listed one second: whichever copy the server goes by, an id that is not
    // on the list must not be served (C16) and nothing may be stored for it
    for backend in ["mem", "sqlite"] {
        let dir = scratch("tcss-http7-");
        let listed = Uuid::new_v4();
        let unlisted = Uuid::new_v4();
        let allow: HashSet<Uuid> = [listed, Uuid::new_v4()].into_iter().collect();
        let mem = Arc::new(InMemoryStorage::new());
        let web = if backend == "mem" { WebServer::new(ServerConfig::default(), Some(allow), Shared(mem.clone())) } else { WebServer::new(ServerConfig::default(), Some(allow), SqliteStorage::new(dir.path()).unwrap()) };
        sys.block_on(async {
            let app = test::init_service(App::new().configure(|sc| web.config(sc))).await;
            let both = format!("{unlisted}\n{listed}").into_bytes();
            for (name, r) in [
                ("add-version", ReqSpec { method: "POST", uri: uri_av(NIL), client_id: Some(both.clone()), content_type: Some(HS_CT.into()), chunks: vec![b"x".to_vec()] }),
                ("get-child-version", ReqSpec { method: "GET", uri: uri_gcv(NIL), client_id: Some(both.clone()), content_type: None, chunks: vec![] }),
                ("add-snapshot", ReqSpec { method: "POST", uri: uri_snap(Uuid::new_v4()), client_id: Some(both.clone()), content_type: Some(SNAP_CT.into()), chunks: vec![b"s".to_vec()] }),
                ("get-snapshot", ReqSpec { method: "GET", uri: "/v1/client/snapshot".into(), client_id: Some(both.clone()), content_type: None, chunks: vec![] }),
            ] {
                let tr = vec![format!("{backend}: allow-list = {{{listed}, one more}}; {name} with two X-Client-Id header lines: first {unlisted} (not listed), then {listed} (listed)")];
                if let Ok(d) = call(&app, &r).await {
                    ctx.common(&d, &r, &tr, "two-ids");
                    // served as the listed client would be fine only if the listed id is the one that is used
                    let st = if backend == "mem" { absfn::via_api(&Shared(mem.clone()), unlisted, &[NIL]).ok() } else { absfn::via_raw_sql(dir.path()).ok().map(|r| cs(&r.db, unlisted)) };
                    let created = st.map(|c| c.exists).unwrap_or(false);
                    let served_unlisted = created || (d.status != 403 && d.status != 400 && {
                        // the response is an outcome for SOME client: it must be the listed one's (which owns nothing yet or what this loop gave it)
                        let st_l = if backend == "mem" { absfn::via_api(&Shared(mem.clone()), listed, &[NIL]).ok() } else { absfn::via_raw_sql(dir.path()).ok().map(|r| cs(&r.db, listed)) };
                        name == "add-version" && d.status == 200 && !st_l.map(|c| c.exists).unwrap_or(false)
                    });
                    if served_unlisted {
                        ctx.v(&["C16"], format!("{name}: a request whose first X-Client-Id is not on the allow-list was served (status {}, a record for the unlisted id exists: {created})", d.status), &r, &tr);
                    }
                }
            }
        });
    }
    // uploads that OVERLAP on one worker (bodies trickle in round-robin): every stored body is its own request's body,
    // no other client's bytes (C06, C09), for add-version and add-snapshot, 2..4 requests in flight
    for backend in ["mem", "sqlite"] {
        let dir = scratch("tcss-http5-");
        let web = if backend == "mem" { WebServer::new(ServerConfig::default(), None, InMemoryStorage::new()) } else { WebServer::new(ServerConfig::default(), None, SqliteStorage::new(dir.path()).unwrap()) };
        sys.block_on(async {
            let app = test::init_service(App::new().configure(|sc| web.config(sc))).await;
            for n in 2..=4usize {
                for shape in 0..3usize {
                    let cls: Vec<Uuid> = (0..n).map(|_| Uuid::new_v4()).collect();
                    let bodies: Vec<Vec<u8>> = (0..n).map(|k| (0..(700 + 300 * k + 17 * shape)).map(|i| (0x10 * (k as u8 + 1)) ^ (i as u8 & 0x0f)).collect()).collect();
                    let reqs: Vec<ReqSpec> = (0..n).map(|k| ReqSpec { method: "POST", uri: uri_av(NIL), client_id: Some(cls[k].to_string().into_bytes()), content_type: Some(HS_CT.into()), chunks: pieces(&bodies[k], 3 + (k + shape) % 3) }).collect();
                    let tr = vec![format!("{backend}: {n} add-version uploads of {n} new clients in flight at once on one worker, bodies arriving chunk by chunk round-robin (shape {shape})")];
                    let ds = call_overlapping(&app, &reqs).await;
                    let mut vids = vec![];
                    for (k, d) in ds.iter().enumerate() {
                        if let Ok(d) = d {
                            ctx.common(d, &reqs[k], &tr, "overlap");
                            if d.status != 200 {
                                ctx.v(&["C14", "C02", "C09"], format!("overlapping upload #{k} answered {}", d.status), &reqs[k], &tr);
                            }
                            vids.push(d.one("x-version-id").and_then(|t| Uuid::parse_str(&t).ok()));
                        } else {
                            vids.push(None);
                        }
                    }
                    for k in 0..n {
                        let g = ReqSpec { method: "GET", uri: uri_gcv(NIL), client_id: Some(cls[k].to_string().into_bytes()), content_type: None, chunks: vec![] };
                        if let Ok(gd) = call(&app, &g).await {
                            ctx.common(&gd, &g, &tr, "overlap-readback");
                            if gd.status == 200 && gd.body != bodies[k] {
                                ctx.v(&["C06", "C09", "C03"], format!("client #{k}'s version reads back as {} bytes differing from its {} uploaded bytes (first difference at {:?}) after overlapping uploads", gd.body.len(), bodies[k].len(), gd.body.iter().zip(bodies[k].iter()).position(|(a, b)| a != b)), &reqs[k], &tr);
                            }
                        }
                    }
                    // snapshots of those versions, again overlapping
                    let sreqs: Vec<ReqSpec> = (0..n).filter(|k| vids[*k].is_some()).map(|k| ReqSpec { method: "POST", uri: uri_snap(vids[k].unwrap()), client_id: Some(cls[k].to_string().into_bytes()), content_type: Some(SNAP_CT.into()), chunks: pieces(&bodies[(k + 1) % n], 3 + (k + shape) % 3) }).collect();
                    let owners: Vec<usize> = (0..n).filter(|k| vids[*k].is_some()).collect();
                    let sds = call_overlapping(&app, &sreqs).await;
                    for (j, d) in sds.iter().enumerate() {
                        let k = owners[j];
                        if let Ok(d) = d {
                            ctx.common(d, &sreqs[j], &tr, "overlap-snap");
                        }
                        let g = ReqSpec { method: "GET", uri: "/v1/client/snapshot".into(), client_id: Some(cls[k].to_string().into_bytes()), content_type: None, chunks: vec![] };
                        if let Ok(gd) = call(&app, &g).await {
                            ctx.common(&gd, &g, &tr, "overlap-snap-readback");
                            if gd.status == 200 && gd.body != bodies[(k + 1) % n] {
                                ctx.v(&["C06", "C09", "C10"], format!("client #{k}'s snapshot reads back as {} bytes differing from the {} uploaded after overlapping uploads", gd.body.len(), bodies[(k + 1) % n].len()), &sreqs[j], &tr);
                            }
                        }
                    }
                }
            }
        });
    }
    // storage failure on each endpoint => 500, still with Cache-Control; the failing call is each call of the request in turn,
    // failing before or AFTER taking effect (a lost commit acknowledgement): the answer is an error, never a conflict or a
    // success, and the client is exactly as before or exactly as after the request (C05, C02, C14)
    {
        let dir = scratch("tcss-http3-");
        for fail_at in 0..6usize {
            for after in [false, true] {
                let st = SqliteStorage::new(dir.path()).unwrap();
                let plan = Arc::new(Mutex::new(FaultPlan::default()));
                let cl = Uuid::new_v4();
                let v1 = {
                    let srv = taskchampion_sync_server_core::Server::new(ServerConfig::default(), SqliteStorage::new(dir.path()).unwrap());
                    let mut t = srv.txn(cl).unwrap();
                    t.new_client(NIL).unwrap();
                    t.commit().unwrap();
                    drop(t);
                    match srv.add_version(cl, NIL, b"one".to_vec()).unwrap().0 {
                        AddVersionResult::Ok(v) => v,
                        _ => NIL,
                    }
                };
                let web = WebServer::new(ServerConfig::default(), None, FaultStorage { inner: st, plan: plan.clone() });
                sys.block_on(async {
                    let app = test::init_service(App::new().configure(|sc| web.config(sc))).await;
                    for (name, r) in [
                        ("add-version", ReqSpec { method: "POST", uri: uri_av(v1), client_id: Some(cl.to_string().into_bytes()), content_type: Some(HS_CT.into()), chunks: vec![b"x".to_vec()] }),
                        ("get-child-version", ReqSpec { method: "GET", uri: uri_gcv(NIL), client_id: Some(cl.to_string().into_bytes()), content_type: None, chunks: vec![] }),
                        ("add-snapshot", ReqSpec { method: "POST", uri: uri_snap(v1), client_id: Some(cl.to_string().into_bytes()), content_type: Some(SNAP_CT.into()), chunks: vec![b"s".to_vec()] }),
                        ("get-snapshot", ReqSpec { method: "GET", uri: "/v1/client/snapshot".into(), client_id: Some(cl.to_string().into_bytes()), content_type: None, chunks: vec![] }),
                    ] {
                        let before = cs(&absfn::via_raw_sql(dir.path()).unwrap().db, cl);
                        {
                            let mut p = plan.lock().unwrap();
                            let b = p.calls;
                            p.fail_at = vec![b + fail_at];
                            p.after_effect = after;
                            p.injected = 0;
                            p.trace.clear();
                        }
                        let d = call(&app, &r).await;
                        let (inj, trace) = {
                            let mut p = plan.lock().unwrap();
                            p.fail_at.clear();
                            (p.injected, p.trace.clone())
                        };
                        let tr = vec![format!("{name} for a client with one version; storage call #{fail_at} of the request fails {} taking effect; calls made: {:?}", if after { "after" } else { "before" }, trace)];
                        if let Ok(d) = d {
                            ctx.common(&d, &r, &tr, "fault");
                            if inj > 0 && d.status != 500 {
                                ctx.v(if d.status == 409 { &["C05", "C14", "C02", "C18"] } else { &["C05", "C14"] }, format!("{name}: a storage call failed but the response is {} (expected 500)", d.status), &r, &tr);
                            }
                            if inj > 0 {
                                let raw = absfn::via_raw_sql(dir.path()).unwrap();
                                let now = cs(&raw.db, cl);
                                let unchanged = now == before;
                                let grew = match name {
                                    "add-version" => now.versions.len() == before.versions.len() + 1 && chain_wf(&now).is_ok() && now.versions.get(&now.latest).map(|v| v.parent_version_id == v1 && v.history_segment == b"x".to_vec()).unwrap_or(false) && now.snapshot == before.snapshot,
                                    "add-snapshot" => now.versions == before.versions && now.latest == before.latest && now.snapshot.as_ref().map(|s| s.version_id) == Some(v1) && now.snapshot_data == Some(b"s".to_vec()),
                                    _ => false,
                                };
                                if !(unchanged || grew) || !raw.anomalies.is_empty() {
                                    ctx.v(&["C05", "C02", "C01"], format!("{name}: after the failed request the client is neither as before nor as after the request: {:?} (before: {:?}) {:?}", now, before, raw.anomalies), &r, &tr);
                                }
                            }
                        }
                    }
                });
            }
        }
    }

    let nv = ctx.violations.len();
    json!({"leg": "http", "requests": ctx.requests, "distinct_outcomes": ctx.outcomes, "violations": ctx.violations, "violations_total": nv, "samples": ctx.samples,
        "inconclusive_items": ctx.inconclusive.iter().take(5).collect::<Vec<_>>(),
        "bound": format!("in process (no socket); protocol histories of {} random requests x 2 configs x 2 backends; client-id forms x 4 endpoints x 4 allow-lists (absent, empty, one, many); 15 malformed requests; body sizes 1, 4095, 4096, 4097, 4098 (with empty chunks in between), 65536, 1 MiB+1, 3 MiB-1, limit, limit+1{} in up-to-5 chunkings; never-seen clients; a repeated X-Client-Id header (unlisted id first) on 4 endpoints; 3 generations of WebServer on one SQLite directory (restart) with and without an allow-list; 2..4 uploads in flight at once on one worker (bodies chunk by chunk round-robin) x 3 shapes x 2 backends; each of the first 6 storage calls of each endpoint's request failing before / after taking effect", if thorough { 120 } else { 45 }, if thorough { ", 65535, 1 MiB, limit-1, limit+1 MiB" } else { "" })})
}
