//! tcss-extractor: mechanical extraction of real functions of /repo into a Verus file.
//!
//! usage: tcss-extractor <repo-root> <verif-root> <unit.vspec> <out.rs> <out.map.json>
//!
//! The .vspec file is Verus text with `//@` directives (see DESIGN.md section 3 and
//! contracts/README).  Everything that is not a directive is copied verbatim.  Directives pull the
//! *source text* of items of /repo's current working tree, byte for byte, applying only the
//! rewrite rules E1..E13 (each recorded as an edit with its rule name so that the fidelity checker
//! can re-assemble the source from the generated text).
//!
//! Exit codes: 0 ok; 3 = anchor lost / unsupported shape (the driver reports "inconclusive").

use proc_macro2::Span;
use serde_json::{json, Value};
use std::collections::BTreeMap;
use std::fs;
use std::path::Path;
use syn::spanned::Spanned;
use syn::visit::Visit;

#[derive(Debug)]
struct Fail(String);
type R<T> = Result<T, Fail>;
fn fail<T>(s: impl Into<String>) -> R<T> {
    Err(Fail(s.into()))
}

#[derive(Clone, Debug)]
struct Edit {
    start: usize,
    end: usize,
    text: String,
    rule: String,
    seq: usize,
    /// generated-text clause bookkeeping: (clause index in `clauses`, offset within text)
    marks: Vec<(usize, usize, usize)>,
}

#[derive(Clone, Debug, Default)]
struct Clause {
    kind: String,  // requires | ensures | invariant | invariant_except_break | decreases | loop_ensures | closure_ensures | closure_requires | proof | const_ensures
    id: String,
    tags: Vec<String>,
    text: String,
    place: String, // "fn" | "loop 1" | "closure 2" | anchor text
}

#[derive(Default, Debug)]
struct FnSpec {
    file: String,
    path: String,
    opts: Vec<String>,
    attrs: Vec<String>,
    ret: Option<String>,
    sig: Option<String>,
    params: Option<Vec<String>>,
    locals: Option<Vec<String>>,
    clauses: Vec<Clause>, // requires/ensures on fn
    loops: BTreeMap<usize, Vec<Clause>>,
    closure_heads: BTreeMap<usize, String>,
    /// closures whose clauses are dropped (reported undecided) instead of stubbing the whole function when the closure is gone
    closure_optional: Vec<usize>,
    closures: BTreeMap<usize, Vec<Clause>>,
    proofs: Vec<(String, Clause)>, // anchor, clause (text is the block)
    nested: BTreeMap<String, Vec<Clause>>, // contracts of nested fn items
    line: usize,
}

struct Src {
    text: String,
    ast: syn::File,
}

fn br(s: Span) -> (usize, usize) {
    let r = s.byte_range();
    (r.start, r.end)
}

struct Ctx {
    repo: String,
    verif: String,
    srcs: BTreeMap<String, Src>,
    out: String,
    items: Vec<Value>,
    trust: Vec<Value>,
    /// constants already extracted by an explicit `//@ item`
    have_consts: Vec<String>,
    /// (file, name) of constants used by extracted bodies, defined in the same source file and not extracted: E15
    need_consts: Vec<(String, String)>,
    auto_consts: Vec<(String, String)>,
}

impl Ctx {
    fn src(&mut self, file: &str) -> R<&Src> {
        if !self.srcs.contains_key(file) {
            let p = Path::new(&self.repo).join(file);
            let text = fs::read_to_string(&p).map_err(|e| Fail(format!("cannot read {}: {e}", p.display())))?;
            let ast = syn::parse_file(&text).map_err(|e| Fail(format!("cannot parse {}: {e}", p.display())))?;
            self.srcs.insert(file.to_string(), Src { text, ast });
        }
        Ok(&self.srcs[file])
    }
}

fn type_name(t: &syn::Type) -> String {
    match t {
        syn::Type::Path(p) => p.path.segments.last().map(|s| s.ident.to_string()).unwrap_or_default(),
        _ => String::new(),
    }
}

enum Found<'a> {
    Fn { attrs: &'a [syn::Attribute], vis: &'a syn::Visibility, vis_start: usize, sig: &'a syn::Signature, block: &'a syn::Block, span: (usize, usize) },
    Item(&'a syn::Item),
}

/// path forms: `name`, `Type::name`, `Type@Trait::name`, `Type@Trait` (whole impl, kind impl)
fn find<'a>(ast: &'a syn::File, path: &str) -> R<Found<'a>> {
    let (ty_part, name) = match path.rsplit_once("::") {
        Some((a, b)) => (Some(a), b),
        None => (None, path),
    };
    if let Some(tp) = ty_part {
        let (ty, tr) = match tp.split_once('@') {
            Some((a, b)) => (a, Some(b)),
            None => (tp, None),
        };
        for it in &ast.items {
            if let syn::Item::Impl(im) = it {
                if type_name(&im.self_ty) != ty {
                    continue;
                }
                let im_tr = im.trait_.as_ref().map(|(_, p, _)| p.segments.last().unwrap().ident.to_string());
                if im_tr.as_deref() != tr {
                    continue;
                }
                for ii in &im.items {
                    if let syn::ImplItem::Fn(f) = ii {
                        if f.sig.ident == name {
                            let sp = br(f.span());
                            let vs = match &f.vis {
                                syn::Visibility::Inherited => br(f.sig.span()).0,
                                v => br(v.span()).0,
                            };
                            return Ok(Found::Fn { attrs: &f.attrs, vis: &f.vis, vis_start: vs, sig: &f.sig, block: &f.block, span: sp });
                        }
                    }
                }
            }
            if let syn::Item::Trait(t) = it {
                if t.ident == ty && tr.is_none() {
                    // trait method declarations are not extracted as fns
                }
            }
        }
        return fail(format!("anchor lost: method {path} not found"));
    }
    // `Type@Trait` whole impl
    if let Some((ty, tr)) = name.split_once('@') {
        for it in &ast.items {
            if let syn::Item::Impl(im) = it {
                let im_tr = im.trait_.as_ref().map(|(_, p, _)| p.segments.last().unwrap().ident.to_string());
                if type_name(&im.self_ty) == ty && im_tr.as_deref() == Some(tr) {
                    return Ok(Found::Item(it));
                }
            }
        }
        return fail(format!("anchor lost: impl {path} not found"));
    }
    for it in &ast.items {
        match it {
            syn::Item::Fn(f) if f.sig.ident == name => {
                let sp = br(f.span());
                let vs = match &f.vis {
                    syn::Visibility::Inherited => br(f.sig.span()).0,
                    v => br(v.span()).0,
                };
                return Ok(Found::Fn { attrs: &f.attrs, vis: &f.vis, vis_start: vs, sig: &f.sig, block: &f.block, span: sp });
            }
            syn::Item::Const(c) if c.ident == name => return Ok(Found::Item(it)),
            syn::Item::Struct(c) if c.ident == name => return Ok(Found::Item(it)),
            syn::Item::Enum(c) if c.ident == name => return Ok(Found::Item(it)),
            syn::Item::Type(c) if c.ident == name => return Ok(Found::Item(it)),
            syn::Item::Trait(c) if c.ident == name => return Ok(Found::Item(it)),
            _ => {}
        }
    }
    fail(format!("anchor lost: item {path} not found"))
}

/// E14: `pub(crate)` / `pub(super)` become `pub` (Verus wants `pub` on items its public specs mention)
fn vis_edit(v: &syn::Visibility, edits: &mut Vec<Edit>, seq: &mut usize) {
    if let syn::Visibility::Restricted(r) = v {
        let (a, b) = br(r.span());
        *seq += 1;
        edits.push(Edit { start: a, end: b, text: "pub".into(), rule: "E14".into(), seq: *seq, marks: vec![] });
    }
}

const KEEP_DERIVES: &[&str] = &["Clone", "Copy", "PartialEq", "Eq", "Hash", "PartialOrd", "Ord"];

fn attr_edits(attrs: &[syn::Attribute], edits: &mut Vec<Edit>, seq: &mut usize, src: &str) {
    attr_edits_x(attrs, edits, seq, src, &[])
}

fn attr_edits_x(attrs: &[syn::Attribute], edits: &mut Vec<Edit>, seq: &mut usize, src: &str, drop_derives: &[String]) {
    for a in attrs {
        let (s, mut e) = br(a.span());
        // swallow the trailing newline + indentation so that no blank lines pile up
        let bytes = src.as_bytes();
        while e < bytes.len() && (bytes[e] == b' ' || bytes[e] == b'\t') {
            e += 1;
        }
        if e < bytes.len() && bytes[e] == b'\n' {
            e += 1;
        }
        let mut text = String::new();
        if a.path().is_ident("derive") {
            let mut keep: Vec<String> = vec![];
            let _ = a.parse_nested_meta(|m| {
                if let Some(id) = m.path.segments.last() {
                    let n = id.ident.to_string();
                    if KEEP_DERIVES.contains(&n.as_str()) && !drop_derives.contains(&n) {
                        keep.push(n);
                    }
                }
                Ok(())
            });
            if !keep.is_empty() {
                text = format!("#[derive({})]\n", keep.join(", "));
            }
        }
        *seq += 1;
        edits.push(Edit { start: s, end: e, text, rule: "E6".into(), seq: *seq, marks: vec![] });
    }
}

#[derive(Default)]
struct LoopInfo {
    body_open: usize, // byte offset of `{`
    body_close: usize, // byte offset of `}`
    start: usize,
    iter_start: Option<usize>, // `for` loops: byte offset of the iterated expression
    tail_no_semi: bool, // the body ends in an expression statement without `;`
}

fn tail_no_semi(b: &syn::Block) -> bool {
    matches!(b.stmts.last(), Some(syn::Stmt::Expr(_, None)))
}

struct BodyV<'a> {
    src: &'a str,
    edits: Vec<Edit>,
    seq: usize,
    loops: Vec<LoopInfo>,
    lets_k: Vec<(String, String, usize)>, // (name, binding kind: let | cond | arm | other, byte offset)
    pat_kind: String,
    closures: Vec<(usize, usize, usize, usize, Vec<String>, bool)>, // (or1.start, body.start, body.end, head_end, param names, body_is_block)
    stmt_stack: Vec<(usize, usize)>,
    calls: Vec<(String, (usize, usize))>,
    breaks: Vec<(usize, usize)>,
    continues: Vec<(usize, usize)>,
    returns: Vec<(usize, usize)>, // enclosing statement of each `return` expression, in source order
    fresh: Vec<(usize, String)>, // (after byte, var)
    strlits: Vec<String>,
    errs: Vec<String>,
    lets: Vec<String>,       // identifiers bound by `let` / `if let` / `while let` patterns, in source order
    upper_idents: Vec<String>, // single-segment UPPER_CASE paths used in the body (constants)
}

impl<'a> BodyV<'a> {
    fn push(&mut self, start: usize, end: usize, text: &str, rule: &str) {
        self.seq += 1;
        self.edits.push(Edit { start, end, text: text.into(), rule: rule.into(), seq: self.seq, marks: vec![] });
    }
    fn macro_path(m: &syn::Macro) -> String {
        m.path.segments.iter().map(|s| s.ident.to_string()).collect::<Vec<_>>().join("::")
    }
    fn handle_macro(&mut self, m: &syn::Macro, whole: (usize, usize), is_stmt: bool) {
        let p = Self::macro_path(m);
        if p.starts_with("log::") {
            if is_stmt {
                // E4: drop the statement (and its trailing newline)
                let mut e = whole.1;
                let b = self.src.as_bytes();
                while e < b.len() && (b[e] == b' ' || b[e] == b'\t') {
                    e += 1;
                }
                if e < b.len() && b[e] == b'\n' {
                    e += 1;
                }
                // also swallow leading indentation
                let mut s = whole.0;
                while s > 0 && (b[s - 1] == b' ' || b[s - 1] == b'\t') {
                    s -= 1;
                }
                self.push(s, e, "", "E4");
            } else {
                self.errs.push(format!("unsupported: {p}! in expression position"));
            }
            return;
        }
        if p == "params" || p == "rusqlite::params" {
            // E16: `params![a, b, c]` (rusqlite: a slice of `&dyn ToSql`) -> `[verif_bind(a), verif_bind(b), verif_bind(c)]`: the same
            // expressions in the same order, each rendered by the stand-in of ToSql instead of a trait object
            use syn::punctuated::Punctuated;
            if let Ok(args) = m.parse_body_with(Punctuated::<syn::Expr, syn::Token![,]>::parse_terminated) {
                let (ms, _) = br(m.span());
                let dspan = match &m.delimiter {
                    syn::MacroDelimiter::Paren(d) => d.span,
                    syn::MacroDelimiter::Brace(d) => d.span,
                    syn::MacroDelimiter::Bracket(d) => d.span,
                };
                let (_, oe) = br(dspan.open());
                let (cs, ce) = br(dspan.close());
                self.push(ms, oe, "[", "E16");
                for a in args.iter() {
                    let (s, e) = br(a.span());
                    self.push(s, s, "verif_bind(", "E16");
                    self.push(e, e, ")", "E16");
                }
                self.push(cs, ce, "]", "E16");
            } else {
                self.errs.push("unsupported: params! with arguments that are not a comma-separated expression list".to_string());
            }
            return;
        }
        let repl = match p.as_str() {
            "anyhow::anyhow" | "anyhow" => Some("verif_anyhow!()"),
            "anyhow::bail" | "bail" => Some("verif_bail!()"),
            "format" => Some("verif_format!()"),
            "panic" => Some("verif_panic!()"),
            _ => None,
        };
        if let Some(r) = repl {
            let (ms, me) = br(m.span());
            self.push(ms, me, r, "E5");
        }
    }
}

fn pat_names(p: &syn::Pat, out: &mut Vec<String>) {
    match p {
        syn::Pat::Ident(i) => out.push(i.ident.to_string()),
        syn::Pat::Type(t) => pat_names(&t.pat, out),
        syn::Pat::Wild(_) => out.push("_".into()),
        syn::Pat::Tuple(t) => {
            for e in &t.elems {
                pat_names(e, out)
            }
        }
        _ => out.push("?".into()),
    }
}

fn is_new_v4(e: &syn::Expr) -> bool {
    if let syn::Expr::Call(c) = e {
        if let syn::Expr::Path(p) = &*c.func {
            let segs: Vec<String> = p.path.segments.iter().map(|s| s.ident.to_string()).collect();
            return c.args.is_empty() && segs == ["Uuid", "new_v4"];
        }
    }
    false
}

impl<'a, 'ast> Visit<'ast> for BodyV<'a> {
    fn visit_stmt(&mut self, s: &'ast syn::Stmt) {
        let sp = br(s.span());
        self.stmt_stack.push(sp);
        match s {
            syn::Stmt::Macro(m) => {
                self.handle_macro(&m.mac, sp, true);
            }
            syn::Stmt::Local(l) => {
                if let Some(init) = &l.init {
                    if is_new_v4(&init.expr) {
                        let mut names = vec![];
                        pat_names(&l.pat, &mut names);
                        if names.len() == 1 && names[0] != "_" && names[0] != "?" {
                            self.fresh.push((sp.1, names[0].clone()));
                        } else {
                            self.errs.push("unsupported: Uuid::new_v4() bound to a non-identifier pattern".into());
                        }
                    }
                }
                syn::visit::visit_stmt(self, s);
            }
            _ => syn::visit::visit_stmt(self, s),
        }
        self.stmt_stack.pop();
    }
    fn visit_expr_macro(&mut self, m: &'ast syn::ExprMacro) {
        let sp = br(m.span());
        self.handle_macro(&m.mac, sp, false);
    }
    fn visit_expr_try(&mut self, t: &'ast syn::ExprTry) {
        let (es, _ee) = br(t.expr.span());
        let (qs, qe) = br(t.question_token.span());
        // E3: Rust's definition of `?` on Result, spelled out (a macro would hide Verus closure syntax from verus!)
        self.push(es, es, "(match ", "E3");
        self.push(qs, qe, " { Ok(verif_v) => verif_v, Err(verif_e) => return Err(verif_from(verif_e)) })", "E3");
        syn::visit::visit_expr_try(self, t);
    }
    fn visit_expr_method_call(&mut self, c: &'ast syn::ExprMethodCall) {
        if let Some(st) = self.stmt_stack.last() {
            self.calls.push((c.method.to_string(), *st));
        }
        syn::visit::visit_expr_method_call(self, c);
    }
    fn visit_expr_call(&mut self, c: &'ast syn::ExprCall) {
        if let syn::Expr::Path(p) = &*c.func {
            if let (Some(st), Some(last)) = (self.stmt_stack.last(), p.path.segments.last()) {
                self.calls.push((last.ident.to_string(), *st));
                // also under its qualified name `Type::name` (anchors that survive other `::new` calls being added)
                let n = p.path.segments.len();
                if n >= 2 {
                    self.calls.push((format!("{}::{}", p.path.segments[n - 2].ident, last.ident), *st));
                }
            }
        }
        syn::visit::visit_expr_call(self, c);
    }
    fn visit_expr_return(&mut self, r: &'ast syn::ExprReturn) {
        if let Some(st) = self.stmt_stack.last() {
            self.returns.push(*st);
        }
        syn::visit::visit_expr_return(self, r);
    }
    fn visit_expr_continue(&mut self, r: &'ast syn::ExprContinue) {
        if let Some(st) = self.stmt_stack.last() {
            self.continues.push(*st);
        }
        syn::visit::visit_expr_continue(self, r);
    }
    fn visit_expr_break(&mut self, r: &'ast syn::ExprBreak) {
        if let Some(st) = self.stmt_stack.last() {
            self.breaks.push(*st);
        }
        syn::visit::visit_expr_break(self, r);
    }
    fn visit_expr_loop(&mut self, l: &'ast syn::ExprLoop) {
        let (o, _) = br(l.body.brace_token.span.open());
        let (c, _) = br(l.body.brace_token.span.close());
        self.loops.push(LoopInfo { body_open: o, body_close: c, start: br(l.span()).0, iter_start: None, tail_no_semi: tail_no_semi(&l.body) });
        syn::visit::visit_expr_loop(self, l);
    }
    fn visit_expr_while(&mut self, l: &'ast syn::ExprWhile) {
        let (o, _) = br(l.body.brace_token.span.open());
        let (c, _) = br(l.body.brace_token.span.close());
        self.loops.push(LoopInfo { body_open: o, body_close: c, start: br(l.span()).0, iter_start: None, tail_no_semi: tail_no_semi(&l.body) });
        syn::visit::visit_expr_while(self, l);
    }
    fn visit_expr_for_loop(&mut self, l: &'ast syn::ExprForLoop) {
        let (o, _) = br(l.body.brace_token.span.open());
        let (c, _) = br(l.body.brace_token.span.close());
        self.loops.push(LoopInfo { body_open: o, body_close: c, start: br(l.span()).0, iter_start: Some(br(l.expr.span()).0), tail_no_semi: tail_no_semi(&l.body) });
        syn::visit::visit_expr_for_loop(self, l);
    }
    fn visit_expr_closure(&mut self, c: &'ast syn::ExprClosure) {
        let (o1, _) = br(c.or1_token.span());
        let (_, o2e) = br(c.or2_token.span());
        let head_end = match &c.output {
            syn::ReturnType::Default => o2e,
            syn::ReturnType::Type(_, t) => br(t.span()).1,
        };
        let (bs, be) = br(c.body.span());
        let mut names = vec![];
        for p in &c.inputs {
            pat_names(p, &mut names);
        }
        let is_block = matches!(&*c.body, syn::Expr::Block(_));
        // E17: a closure whose single parameter is a tuple PATTERN (`|(v, d)| { .. }`; this Verus accepts variables only): the
        // parameter is called `verif_p` (the typed head comes from the sidecar, E8) and the pattern moves, verbatim, into a `let` that
        // opens the body - for an irrefutable pattern that is Rust's own definition of a pattern parameter
        if c.inputs.len() == 1 && is_block {
            let mut pat = &c.inputs[0];
            if let syn::Pat::Type(t) = pat {
                pat = &*t.pat;
            }
            if let syn::Pat::Tuple(_) = pat {
                let (ps, pe) = br(pat.span());
                let ptxt = self.src[ps..pe].to_string();
                self.push(bs + 1, bs + 1, &format!(" let {} = verif_p;", ptxt), "E17");
                names = vec!["verif_p".to_string()];
            }
        }
        self.closures.push((o1, bs, be, head_end, names, is_block));
        syn::visit::visit_expr_closure(self, c);
    }
    fn visit_pat_ident(&mut self, p: &'ast syn::PatIdent) {
        let n = p.ident.to_string();
        // `None` and other unit variants parse as identifier patterns; bindings are lower-case
        if n.chars().next().map(|c| c.is_lowercase() || c == '_').unwrap_or(false) {
            self.lets.push(n.clone());
            self.lets_k.push((n, self.pat_kind.clone(), br(p.ident.span()).0));
        }
        syn::visit::visit_pat_ident(self, p);
    }
    fn visit_local(&mut self, l: &'ast syn::Local) {
        let old = std::mem::replace(&mut self.pat_kind, "let".to_string());
        self.visit_pat(&l.pat);
        self.pat_kind = old;
        if let Some(init) = &l.init {
            self.visit_expr(&init.expr);
            if let Some((_, e)) = &init.diverge {
                self.visit_expr(e);
            }
        }
    }
    fn visit_expr_let(&mut self, l: &'ast syn::ExprLet) {
        let old = std::mem::replace(&mut self.pat_kind, "cond".to_string());
        self.visit_pat(&l.pat);
        self.pat_kind = old;
        self.visit_expr(&l.expr);
    }
    fn visit_arm(&mut self, a: &'ast syn::Arm) {
        let old = std::mem::replace(&mut self.pat_kind, "arm".to_string());
        self.visit_pat(&a.pat);
        self.pat_kind = old;
        if let Some((_, g)) = &a.guard {
            self.visit_expr(g);
        }
        self.visit_expr(&a.body);
    }
    fn visit_expr_path(&mut self, p: &'ast syn::ExprPath) {
        if p.path.segments.len() == 1 {
            let n = p.path.segments[0].ident.to_string();
            if n.len() > 1 && n.chars().all(|c| c.is_ascii_uppercase() || c.is_ascii_digit() || c == '_') && n.chars().any(|c| c.is_ascii_uppercase()) {
                if !self.upper_idents.contains(&n) {
                    self.upper_idents.push(n);
                }
            }
        }
        syn::visit::visit_expr_path(self, p);
    }
    fn visit_lit_str(&mut self, l: &'ast syn::LitStr) {
        self.strlits.push(l.value());
    }
    fn visit_item(&mut self, _i: &'ast syn::Item) {
        // nested items (e.g. `fn badrequest()` inside client_id_header) are copied verbatim and
        // visited like the rest of the body
        syn::visit::visit_item(self, _i);
    }
}

fn subst_idents(text: &str, map: &[(String, String)]) -> String {
    if map.is_empty() {
        return text.to_string();
    }
    let b: Vec<char> = text.chars().collect();
    let mut out = String::new();
    let mut i = 0;
    while i < b.len() {
        if b[i].is_alphabetic() || b[i] == '_' {
            let st = i;
            while i < b.len() && (b[i].is_alphanumeric() || b[i] == '_') {
                i += 1;
            }
            let w: String = b[st..i].iter().collect();
            match map.iter().find(|(a, _)| *a == w) {
                Some((_, r)) => out.push_str(r),
                None => out.push_str(&w),
            }
        } else {
            out.push(b[i]);
            i += 1;
        }
    }
    out
}

/// Render a list of clauses under a keyword, recording marks (clause idx, offset, len) relative to
/// the returned text.
fn render_clauses(kw: &str, cl: &[(usize, &Clause)], indent: &str, marks: &mut Vec<(usize, usize, usize)>, base: usize) -> String {
    let mut s = String::new();
    if cl.is_empty() {
        return s;
    }
    s.push_str(&format!("\n{indent}{kw}\n"));
    for (idx, c) in cl {
        let t = c.text.trim();
        s.push_str(indent);
        s.push_str("    ");
        let off = s.len();
        s.push_str(t);
        marks.push((*idx, base + off, t.len()));
        s.push_str(",\n");
    }
    s
}

fn apply_edits(src: &str, range: (usize, usize), edits: &mut Vec<Edit>, gen_base: usize) -> R<(String, Vec<Value>, Vec<(usize, usize, usize)>)> {
    edits.sort_by(|a, b| (a.start, a.seq).cmp(&(b.start, b.seq)));
    let mut out = String::new();
    let mut segs = vec![];
    let mut marks = vec![];
    let mut pos = range.0;
    for e in edits.iter() {
        if e.start < pos {
            return fail(format!("internal: overlapping edits at {} (rule {})", e.start, e.rule));
        }
        if e.start > pos {
            let g0 = gen_base + out.len();
            out.push_str(&src[pos..e.start]);
            segs.push(json!({"k":"verbatim","src":[pos,e.start],"gen":[g0,gen_base+out.len()]}));
        }
        if e.end > e.start {
            segs.push(json!({"k":"dropped","rule":e.rule,"src":[e.start,e.end],"text":&src[e.start..e.end]}));
        }
        if !e.text.is_empty() {
            let g0 = gen_base + out.len();
            for (ci, off, len) in &e.marks {
                marks.push((*ci, g0 + off, *len));
            }
            out.push_str(&e.text);
            segs.push(json!({"k":"inserted","rule":e.rule,"gen":[g0,gen_base+out.len()]}));
        }
        pos = e.end;
    }
    if pos > range.1 {
        return fail("internal: edit beyond item".to_string());
    }
    if pos < range.1 {
        let g0 = gen_base + out.len();
        out.push_str(&src[pos..range.1]);
        segs.push(json!({"k":"verbatim","src":[pos,range.1],"gen":[g0,gen_base+out.len()]}));
    }
    Ok((out, segs, marks))
}

fn line_of(text: &str, off: usize) -> usize {
    text[..off.min(text.len())].bytes().filter(|b| *b == b'\n').count() + 1
}

fn gen_fn(ctx: &mut Ctx, fs_: &FnSpec) -> R<()> {
    let gen_base = ctx.out.len();
    let srcfile = fs_.file.clone();
    ctx.src(&srcfile)?;
    let srcs = &ctx.srcs[&srcfile];
    let text = &srcs.text;
    let (attrs, vis, vis_start, sig, block, span) = match find(&srcs.ast, &fs_.path)? {
        Found::Fn { attrs, vis, vis_start, sig, block, span } => (attrs, vis, vis_start, sig, block, span),
        _ => return fail(format!("{} is not a function", fs_.path)),
    };
    let _ = vis_start;
    let mut v = BodyV { src: text, edits: vec![], seq: 0, loops: vec![], closures: vec![], stmt_stack: vec![], calls: vec![], breaks: vec![], continues: vec![], returns: vec![], fresh: vec![], strlits: vec![], errs: vec![], lets: vec![], lets_k: vec![], pat_kind: "other".to_string(), upper_idents: vec![] };
    attr_edits(attrs, &mut v.edits, &mut v.seq, text);
    if fs_.opts.iter().any(|o| o == "private") {
        // E14: `pub` dropped so that the contract may mention unit-private specification functions
        if let syn::Visibility::Public(p) = vis {
            let (a, b) = br(p.span());
            let mut e = b;
            while e < text.len() && text.as_bytes()[e] == b' ' {
                e += 1;
            }
            v.seq += 1;
            let seq = v.seq;
            v.edits.push(Edit { start: a, end: e, text: String::new(), rule: "E14".into(), seq, marks: vec![] });
        }
    } else {
        vis_edit(vis, &mut v.edits, &mut v.seq);
    }
    v.visit_block(block);
    if !v.errs.is_empty() {
        return fail(v.errs.join("; "));
    }
    // E15: constants of the same source file that the body uses and that no `//@ item` extracts
    for n in &v.upper_idents {
        if ctx.have_consts.contains(n) || ctx.auto_consts.iter().any(|(_, x)| x == n) {
            continue;
        }
        let defined = srcs.ast.items.iter().any(|it| matches!(it, syn::Item::Const(c) if c.ident == n));
        if defined && !ctx.need_consts.iter().any(|(_, x)| x == n) {
            ctx.need_consts.push((srcfile.clone(), n.clone()));
        }
    }
    let mut all_clauses: Vec<Clause> = vec![];
    let mut rules: Vec<String> = vec!["E2".into()];

    // parameter names (non-self), positional binding
    let mut src_params: Vec<String> = vec![];
    for a in &sig.inputs {
        if let syn::FnArg::Typed(t) = a {
            let mut n = vec![];
            pat_names(&t.pat, &mut n);
            src_params.push(n.join("_"));
        }
    }
    let mut ren: Vec<(String, String)> = vec![];
    if let Some(ps) = &fs_.params {
        if ps.len() != src_params.len() {
            return fail(format!("anchor lost: {} has {} parameters, contract expects {}", fs_.path, src_params.len(), ps.len()));
        }
        for (a, b) in ps.iter().zip(src_params.iter()) {
            if a != b {
                let b2 = b.strip_prefix("mut ").unwrap_or(b).to_string();
                ren.push((a.clone(), b2));
            }
        }
    }
    // pattern-bound identifiers: the contract's canonical names (`locals [kind:]name …`, in source order of the pinned tree)
    // are ALIGNED with the identifiers bound in this body (same binding kind required when the contract states one; equal
    // names preferred; identifiers the contract does not know -- new locals -- are skipped).  A pure rename of locals, or a
    // new `let`, therefore keeps the contract applicable.  A clause is rewritten with the bindings in scope AT ITS ANCHOR:
    // canonical name n -> the last aligned identifier for n bound before that point.
    let mut aligned: Vec<(String, String, usize)> = vec![]; // (canonical, source name, source offset)
    if let Some(ls) = &fs_.locals {
        let canon: Vec<(Option<String>, String)> = ls.iter().map(|x| match x.split_once(':') { Some((k, n)) => (Some(k.to_string()), n.to_string()), None => (None, x.clone()) }).collect();
        let src = &v.lets_k;
        let (m, n) = (canon.len(), src.len());
        // (1) identifiers that kept their name: longest common subsequence on names (same binding kind preferred)
        let score = |i: usize, j: usize| -> i64 {
            if canon[i].1 != src[j].0 {
                return -1;
            }
            if canon[i].0.as_ref().map(|k| *k == src[j].1).unwrap_or(true) { 4 } else { 3 }
        };
        let mut dp = vec![vec![0i64; n + 1]; m + 1];
        for i in (0..m).rev() {
            for j in (0..n).rev() {
                let mut best = dp[i + 1][j].max(dp[i][j + 1]);
                let sc = score(i, j);
                if sc > 0 {
                    best = best.max(sc + dp[i + 1][j + 1]);
                }
                dp[i][j] = best;
            }
        }
        let mut pairs: Vec<(usize, usize)> = vec![];
        let (mut i, mut j) = (0, 0);
        while i < m && j < n {
            let sc = score(i, j);
            if sc > 0 && dp[i][j] == sc + dp[i + 1][j + 1] {
                pairs.push((i, j));
                i += 1;
                j += 1;
            } else if dp[i][j] == dp[i][j + 1] {
                j += 1;
            } else {
                i += 1;
            }
        }
        let c_matched: Vec<bool> = (0..m).map(|i| pairs.iter().any(|p| p.0 == i)).collect();
        let s_matched: Vec<bool> = (0..n).map(|j| pairs.iter().any(|p| p.1 == j)).collect();
        for (i, j) in &pairs {
            aligned.push((canon[*i].1.clone(), src[*j].0.clone(), src[*j].2));
        }
        // (2) renamed identifiers, gap by gap (between two kept names): a contract name that no longer occurs freely in the body
        // is paired with a body identifier the contract does not know, in order, PROVIDED the gap holds equally many of both for
        // that binding kind -- anything less clear-cut is left alone (a wrong guess could turn into a wrong verdict)
        let mut bounds: Vec<(usize, usize)> = vec![(0, 0)];
        for (i, j) in &pairs {
            bounds.push((*i + 1, *j + 1));
        }
        for (g, (ci, sj)) in bounds.iter().enumerate() {
            let (ce, se) = if g < pairs.len() { (pairs[g].0, pairs[g].1) } else { (m, n) };
            let elig_c: Vec<usize> = (*ci..ce).filter(|i| !c_matched[*i] && !(0..n).any(|j| !s_matched[j] && src[j].0 == canon[*i].1)).collect();
            let elig_s: Vec<usize> = (*sj..se).filter(|j| !s_matched[*j] && !canon.iter().any(|c| c.1 == src[*j].0)).collect();
            let mut kinds: Vec<String> = elig_s.iter().map(|j| src[*j].1.clone()).collect();
            kinds.sort();
            kinds.dedup();
            for k in kinds {
                let cs_: Vec<usize> = elig_c.iter().cloned().filter(|i| canon[*i].0.as_ref().map(|x| *x == k).unwrap_or(false)).collect();
                let ss_: Vec<usize> = elig_s.iter().cloned().filter(|j| src[*j].1 == k).collect();
                if !cs_.is_empty() && cs_.len() == ss_.len() {
                    for (i, j) in cs_.iter().zip(ss_.iter()) {
                        aligned.push((canon[*i].1.clone(), src[*j].0.clone(), src[*j].2));
                    }
                }
            }
            // contract names without a stated kind: only a gap that is a pure rename as a whole
            let cs_: Vec<usize> = elig_c.iter().cloned().filter(|i| canon[*i].0.is_none()).collect();
            if !cs_.is_empty() && cs_.len() == elig_c.len() && cs_.len() == elig_s.len() {
                for (i, j) in cs_.iter().zip(elig_s.iter()) {
                    aligned.push((canon[*i].1.clone(), src[*j].0.clone(), src[*j].2));
                }
            }
        }
        aligned.sort_by_key(|a| a.2);
    }
    let fix_at = |t: &str, pos: usize| -> String {
        let mut map = ren.clone();
        let mut names: Vec<&String> = aligned.iter().map(|a| &a.0).collect();
        names.sort();
        names.dedup();
        for nme in names {
            if map.iter().any(|(x, _)| x == nme) {
                continue;
            }
            let cands: Vec<&(String, String, usize)> = aligned.iter().filter(|a| &a.0 == nme).collect();
            let pick = cands.iter().filter(|a| a.2 < pos).last().or(cands.first());
            if let Some(a) = pick {
                if a.1 != *nme {
                    map.push((nme.clone(), a.1.clone()));
                }
            }
        }
        subst_idents(t, &map)
    };
    let fix = |t: &str| fix_at(t, usize::MAX);

    // --- signature edits
    let hoist = fs_.opts.iter().any(|o| o == "hoist_txn");
    let mut twin: Option<String> = None;
    if let Some(newsig) = &fs_.sig {
        // E12: replace the parameter list; names must match in order
        let (ps, pe) = br(sig.paren_token.span.join());
        // names in replacement
        let fake = format!("fn f{} {{}}", fix(newsig));
        let parsed: syn::ItemFn = syn::parse_str(&fake).map_err(|e| Fail(format!("bad sig in contract of {}: {e}", fs_.path)))?;
        let mut new_names = vec![];
        for a in &parsed.sig.inputs {
            if let syn::FnArg::Typed(t) = a {
                let mut n = vec![];
                pat_names(&t.pat, &mut n);
                new_names.push(n.join("_"));
            }
        }
        if new_names != src_params {
            return fail(format!("anchor lost: parameters of {} are {:?}, contract stand-in signature has {:?}", fs_.path, src_params, new_names));
        }
        v.push(ps, pe, &fix(newsig), "E12");
        rules.push("E12".into());
    }
    if hoist {
        // E9
        // the first statement that is not a (dropped, E4) log line
        let first = block
            .stmts
            .iter()
            .find(|s| !matches!(s, syn::Stmt::Macro(m) if BodyV::macro_path(&m.mac).starts_with("log::")))
            .ok_or(Fail(format!("anchor lost: {} has an empty body", fs_.path)))?;
        let ok = (|| -> Option<(String, (usize, usize))> {
            if let syn::Stmt::Local(l) = first {
                let mut names = vec![];
                pat_names(&l.pat, &mut names);
                if names != ["txn"] {
                    return None;
                }
                let init = l.init.as_ref()?;
                if let syn::Expr::Try(t) = &*init.expr {
                    if let syn::Expr::MethodCall(mc) = &*t.expr {
                        if mc.method == "txn" && mc.args.len() == 1 {
                            if let syn::Expr::Field(f) = &*mc.receiver {
                                if let (syn::Member::Named(n), syn::Expr::Path(p)) = (&f.member, &*f.base) {
                                    if n == "storage" && p.path.is_ident("self") {
                                        let a = br(mc.args[0].span());
                                        return Some((text[a.0..a.1].to_string(), br(first.span())));
                                    }
                                }
                            }
                        }
                    }
                }
            }
            None
        })();
        let (arg, st) = match ok {
            Some(x) => x,
            None => return fail(format!("anchor lost: first statement of {} is not `let mut txn = self.storage.txn(<id>)?;` (rule E9)", fs_.path)),
        };
        // remove all edits inside the first statement (E3 on its `?`), then drop the statement
        v.edits.retain(|e| !(e.start >= st.0 && e.end <= st.1));
        let b = text.as_bytes();
        let mut e = st.1;
        while e < b.len() && (b[e] == b' ' || b[e] == b'\t') {
            e += 1;
        }
        if e < b.len() && b[e] == b'\n' {
            e += 1;
        }
        let mut s = st.0;
        while s > 0 && (b[s - 1] == b' ' || b[s - 1] == b'\t') {
            s -= 1;
        }
        v.push(s, e, "", "E9");
        // insert the txn parameter after the receiver
        let recv = sig.inputs.first().ok_or(Fail("anchor lost: no receiver".into()))?;
        if !matches!(recv, syn::FnArg::Receiver(_)) {
            return fail("anchor lost: E9 needs a method");
        }
        let (_, re) = br(recv.span());
        v.push(re, re, ", txn: &mut Box<dyn StorageTxn + '_>", "E9");
        rules.push("E9".into());
        let stmt_text = &text[st.0..st.1];
        let stmt_e3 = stmt_text.replacen("self.storage.txn(", "(match self.storage.txn(", 1).replacen(")?;", ") { Ok(verif_v) => verif_v, Err(verif_e) => return Err(verif_from(verif_e)) });", 1);
        twin = Some(format!(
            "    // E9 twin: exactly the first statement of {p} (`{orig}`), then hand the transaction out\n    fn {name}__open(&self, {argname}: Uuid) -> (r: Result<Box<dyn StorageTxn + '_>, ServerError>)\n        requires\n            self.can_open(),\n        ensures\n            r is Ok ==> open_post(r->Ok_0@, {argname}) && r->Ok_0.inv(),\n    {{\n        {stmt}\n        Ok(txn)\n    }}\n",
            p = fs_.path,
            orig = stmt_text.trim(),
            name = sig.ident,
            argname = arg.trim(),
            stmt = stmt_e3.trim()
        ));
    }

    // return value naming (E2)
    let retname = fs_.ret.clone().unwrap_or_else(|| "r".into());
    if let syn::ReturnType::Type(_, ty) = &sig.output {
        let (ts, te) = br(ty.span());
        v.push(ts, ts, &format!("({retname}: "), "E2");
        v.push(te, te, ")", "E2");
    }
    // attributes from the sidecar (inserted before the fn)
    for a in &fs_.attrs {
        v.edits.push(Edit { start: span.0, end: span.0, text: format!("{a}\n    "), rule: "E2".into(), seq: 0, marks: vec![] });
    }

    // fn-level clauses
    let (bo, _) = br(block.brace_token.span.open());
    {
        let mut marks = vec![];
        let mut s = String::new();
        let base_idx = all_clauses.len();
        for c in &fs_.clauses {
            let mut c2 = c.clone();
            c2.text = fix(&c.text);
            c2.place = "fn".into();
            all_clauses.push(c2);
        }
        if std::env::var("TCSS_VACUITY").is_ok() && fs_.clauses.iter().any(|c| c.kind == "ensures") && !fs_.opts.iter().any(|o| o == "vacuity_start") {
            // vacuity twin (DESIGN.md 8): a function that proves `false` has contradictory preconditions / assumptions
            all_clauses.push(Clause { kind: "ensures".into(), id: "vacuity.false".into(), tags: vec![], text: "false".into(), place: "fn".into() });
        }
        let req: Vec<(usize, &Clause)> = all_clauses.iter().enumerate().skip(base_idx).filter(|(_, c)| c.kind == "requires").collect();
        let ens: Vec<(usize, &Clause)> = all_clauses.iter().enumerate().skip(base_idx).filter(|(_, c)| c.kind == "ensures").collect();
        let dec: Vec<(usize, &Clause)> = all_clauses.iter().enumerate().skip(base_idx).filter(|(_, c)| c.kind == "decreases").collect();
        s.push_str(&render_clauses("requires", &req, "        ", &mut marks, 0));
        let l1 = s.len();
        s.push_str(&render_clauses("ensures", &ens, "        ", &mut marks, l1));
        let l2 = s.len();
        s.push_str(&render_clauses("decreases", &dec, "        ", &mut marks, l2));
        if !s.is_empty() {
            s.push_str("    ");
            // the clause text sits between the return type and `{`; eat the single space before `{`
            v.seq += 1;
            let seq = v.seq;
            v.edits.push(Edit { start: bo, end: bo, text: s, rule: "E2".into(), seq, marks });
        }
    }
    // loops
    for (k, cls) in &fs_.loops {
        let li = v.loops.get(k - 1).ok_or(Fail(format!("anchor lost: {} has no loop #{k}", fs_.path)))?;
        let (bo, _bc) = (li.body_open, li.body_close);
        if let Some(is) = li.iter_start {
            // `for x in e` -> `for x in verif_it: e`: names the ghost iterator so that invariants can mention its position
            v.seq += 1;
            let seq = v.seq;
            v.edits.push(Edit { start: is, end: is, text: "verif_it: ".into(), rule: "E2".into(), seq, marks: vec![] });
        }
        let li = v.loops.get(k - 1).unwrap();
        let _ = li;
        let mut marks = vec![];
        let mut s = String::new();
        let base_idx = all_clauses.len();
        for c in cls {
            let mut c2 = c.clone();
            c2.text = fix_at(&c.text, bo);
            c2.place = format!("loop {k}");
            all_clauses.push(c2);
        }
        for kw in ["invariant_except_break", "invariant", "ensures", "decreases"] {
            let kind = if kw == "ensures" { "loop_ensures" } else { kw };
            let sel: Vec<(usize, &Clause)> = all_clauses.iter().enumerate().skip(base_idx).filter(|(_, c)| c.kind == kind).collect();
            let l = s.len();
            s.push_str(&render_clauses(kw, &sel, "            ", &mut marks, l));
        }
        s.push_str("        ");
        v.seq += 1;
        let seq = v.seq;
        v.edits.push(Edit { start: bo, end: bo, text: s, rule: "E2".into(), seq, marks });
    }
    // closures (E8)
    let mut skipped_clauses: Vec<Clause> = vec![];
    for (k, head) in &fs_.closure_heads {
        if v.closures.get(k - 1).is_none() && fs_.closures.get(k).map(|c| c.is_empty()).unwrap_or(true) {
            // a typed head only (no clauses hang on it) for a closure that is no longer there: nothing to rewrite
            continue;
        }
        if v.closures.get(k - 1).is_none() && fs_.closure_optional.contains(k) {
            // `closure k optional`: the closure is gone on this tree (e.g. `.map(|..| ..).transpose()` rewritten as a `match`); the
            // function is still verified against its own postconditions, the closure's clauses are listed as UNDECIDED
            for c in fs_.closures.get(k).map(|v| v.as_slice()).unwrap_or(&[]) {
                skipped_clauses.push(Clause { place: format!("closure {k}"), ..c.clone() });
            }
            continue;
        }
        let (o1, bs, be, head_end, names, is_block) = v.closures.get(k - 1).cloned().ok_or(Fail(format!("anchor lost: {} has no closure #{k}", fs_.path)))?;
        // check parameter names
        let fake = format!("fn f() {{ let _c = {} {{}}; }}", fix(head));
        let _ = fake;
        let head_names: Vec<String> = {
            let h = fix(head);
            let inner = h.trim();
            let inner = inner.strip_prefix('|').ok_or(Fail("closure head must start with |".into()))?;
            let end = inner.find('|').ok_or(Fail("closure head must have closing |".into()))?;
            // split at top-level commas only (a parameter type may be a tuple or a generic)
            let mut parts: Vec<String> = vec![String::new()];
            let mut depth = 0i32;
            for ch in inner[..end].chars() {
                match ch {
                    '(' | '<' | '[' => depth += 1,
                    ')' | '>' | ']' => depth -= 1,
                    _ => {}
                }
                if ch == ',' && depth == 0 {
                    parts.push(String::new());
                } else {
                    parts.last_mut().unwrap().push(ch);
                }
            }
            parts
                .iter()
                .filter(|s| !s.trim().is_empty())
                .map(|p| p.split(':').next().unwrap().trim().trim_start_matches("mut ").to_string())
                .collect()
        };
        let src_names: Vec<String> = names.iter().map(|n| if n == "_" { "_e".to_string() } else { n.clone() }).collect();
        // a RENAMED closure parameter (same arity): the sidecar's names for the parameters are replaced, positionally, by the
        // source's in the typed head and in the closure's clauses - unless a new name already means something else there
        let mut cl_ren: Vec<(String, String)> = vec![];
        if head_names != src_names {
            let texts: Vec<&str> = std::iter::once(head.as_str()).chain(fs_.closures.get(k).map(|v| v.as_slice()).unwrap_or(&[]).iter().map(|c| c.text.as_str())).collect();
            let nocomment = |t: &str| t.lines().map(|l| l.split("//").next().unwrap_or("")).collect::<Vec<_>>().join("\n");
            let clash = |n: &str| texts.iter().any(|t| { let t = nocomment(t); subst_idents(&t, &[(n.to_string(), "\u{1}".to_string())]) != t });
            if head_names.len() != src_names.len() || src_names.iter().zip(head_names.iter()).any(|(sn, hn)| sn != hn && (clash(sn) || sn == "?")) {
                return fail(format!("anchor lost: closure #{k} of {} has parameters {:?}, contract has {:?}", fs_.path, src_names, head_names));
            }
            for (sn, hn) in src_names.iter().zip(head_names.iter()) {
                if sn != hn {
                    cl_ren.push((hn.clone(), sn.clone()));
                }
            }
        }
        let mut marks = vec![];
        let mut s = subst_idents(fix(head).trim(), &cl_ren);
        let base_idx = all_clauses.len();
        for c in fs_.closures.get(k).map(|v| v.as_slice()).unwrap_or(&[]) {
            let mut c2 = c.clone();
            c2.text = subst_idents(&fix_at(&c.text, o1), &cl_ren);
            c2.place = format!("closure {k}");
            all_clauses.push(c2);
        }
        for (kw, kind) in [("requires", "closure_requires"), ("ensures", "closure_ensures")] {
            let sel: Vec<(usize, &Clause)> = all_clauses.iter().enumerate().skip(base_idx).filter(|(_, c)| c.kind == kind).collect();
            let l = s.len();
            s.push_str(&render_clauses(kw, &sel, "                ", &mut marks, l));
        }
        if !is_block {
            s.push_str(" { ");
            v.push(be, be, " }", "E8");
        } else {
            s.push(' ');
        }
        v.seq += 1;
        let seq = v.seq;
        // replace `|params| [-> T]` up to the body start
        let _ = head_end;
        v.edits.push(Edit { start: o1, end: bs, text: s, rule: "E8".into(), seq, marks });
        if !rules.contains(&"E8".to_string()) {
            rules.push("E8".into());
        }
    }
    // nested fn items: name the return value `o` and splice their ensures (E2)
    for (name, cls) in &fs_.nested {
        let mut found = false;
        for st in &block.stmts {
            if let syn::Stmt::Item(syn::Item::Fn(nf)) = st {
                if nf.sig.ident == name {
                    found = true;
                    if let syn::ReturnType::Type(_, ty) = &nf.sig.output {
                        let (ts, te) = br(ty.span());
                        v.push(ts, ts, "(o: ", "E2");
                        v.push(te, te, ")", "E2");
                    }
                    let (nbo, _) = br(nf.block.brace_token.span.open());
                    let mut marks = vec![];
                    let mut s = String::new();
                    let base_idx = all_clauses.len();
                    for c in cls {
                        let mut c2 = c.clone();
                        c2.text = fix(&c.text);
                        c2.place = format!("nested fn {name}");
                        all_clauses.push(c2);
                    }
                    for (kw, kind) in [("requires", "nested_requires"), ("ensures", "nested_ensures")] {
                        let sel: Vec<(usize, &Clause)> = all_clauses.iter().enumerate().skip(base_idx).filter(|(_, c)| c.kind == kind).collect();
                        let l = s.len();
                        s.push_str(&render_clauses(kw, &sel, "            ", &mut marks, l));
                    }
                    s.push_str("        ");
                    v.seq += 1;
                    let seq = v.seq;
                    v.edits.push(Edit { start: nbo, end: nbo, text: s, rule: "E2".into(), seq, marks });
                }
            }
        }
        if !found {
            return fail(format!("anchor lost: {} has no nested fn {name}", fs_.path));
        }
    }
    // E10 fresh ids
    for (after, var) in &v.fresh.clone() {
        let t = format!("\n        proof {{ assume(fresh_id({var}, txn@, parent_version_id)); }} // E10 (A1): the one assumption about Uuid::new_v4()");
        v.push(*after, *after, &t, "E10");
        rules.push("E10".into());
        ctx.trust.push(json!({"kind":"assume","rule":"E10","fn":fs_.path,"text":format!("assume(fresh_id({var}, txn@, parent_version_id))")}));
    }
    // proof blocks
    let mut proofs_all: Vec<(String, Clause)> = fs_.proofs.clone();
    // (also: functions marked `vacuity_start` in the sidecar - those that OTHER extracted functions of the unit call: an `ensures false`
    // twin of a callee would be assumed by its callers and make THEM prove false)
    if std::env::var("TCSS_VACUITY").is_ok() && (!fs_.clauses.iter().any(|c| c.kind == "ensures") || fs_.opts.iter().any(|o| o == "vacuity_start")) {
        // functions whose contract comes from a trait: their (trait-level) precondition must be satisfiable,
        // i.e. `assert(false)` at the start of the body must FAIL
        proofs_all.push(("start".to_string(), Clause { kind: "proof".into(), id: "vacuity.false".into(), tags: vec![], text: "{ assert(false); }".into(), place: String::new() }));
    }
    // `before_return *` / `before_continue *` / `before_break *`: the clause is placed at EVERY such point of the
    // function (one obligation `id#k` per point), so that a point added by a later change is covered too
    let mut expanded: Vec<(String, Clause)> = vec![];
    for (anchor, c) in proofs_all.into_iter() {
        let parts: Vec<&str> = anchor.split_whitespace().collect();
        if parts.len() == 2 && parts[1] == "*" {
            let n = match parts[0] {
                "before_return" => v.returns.len(),
                "before_continue" => v.continues.len(),
                "before_break" => v.breaks.len(),
                _ => return fail(format!("bad proof anchor `{anchor}`")),
            };
            if n == 0 {
                return fail(format!("anchor lost: {} has no `{}` point", fs_.path, parts[0]));
            }
            for k in 1..=n {
                let mut c2 = c.clone();
                c2.id = format!("{}#{k}", c.id);
                expanded.push((format!("{} {k}", parts[0]), c2));
            }
        } else {
            expanded.push((anchor, c));
        }
    }
    let proofs_all = expanded;
    for (anchor, c) in &proofs_all {
        let parts: Vec<&str> = anchor.split_whitespace().collect();
        let pos = match parts.as_slice() {
            ["start"] => bo + 1,
            ["before_loop", k] => {
                let k: usize = k.parse().map_err(|_| Fail("bad loop index".into()))?;
                v.loops.get(k - 1).ok_or(Fail(format!("anchor lost: {} has no loop #{k}", fs_.path)))?.start
            }
            ["loop_start", k] => {
                let k: usize = k.parse().map_err(|_| Fail("bad loop index".into()))?;
                v.loops.get(k - 1).ok_or(Fail(format!("anchor lost: {} has no loop #{k}", fs_.path)))?.body_open + 1
            }
            ["loop_end", k] => {
                let k: usize = k.parse().map_err(|_| Fail("bad loop index".into()))?;
                v.loops.get(k - 1).ok_or(Fail(format!("anchor lost: {} has no loop #{k}", fs_.path)))?.body_close
            }
            ["before_return", k] => {
                let k: usize = k.parse().map_err(|_| Fail("bad return index".into()))?;
                v.returns.get(k - 1).ok_or(Fail(format!("anchor lost: {} has no return #{k}", fs_.path)))?.0
            }
            ["before_continue", k] => {
                let k: usize = k.parse().map_err(|_| Fail("bad continue index".into()))?;
                v.continues.get(k - 1).ok_or(Fail(format!("anchor lost: {} has no continue #{k}", fs_.path)))?.0
            }
            ["before_break", k] => {
                let k: usize = k.parse().map_err(|_| Fail("bad break index".into()))?;
                v.breaks.get(k - 1).ok_or(Fail(format!("anchor lost: {} has no break #{k}", fs_.path)))?.0
            }
            ["after_loop", k] => {
                let k: usize = k.parse().map_err(|_| Fail("bad loop index".into()))?;
                v.loops.get(k - 1).ok_or(Fail(format!("anchor lost: {} has no loop #{k}", fs_.path)))?.body_close + 1
            }
            [w @ ("after_call" | "before_call"), name, k] => {
                let k: usize = k.parse().map_err(|_| Fail("bad call index".into()))?;
                let hits: Vec<&(String, (usize, usize))> = v.calls.iter().filter(|(n, _)| n == name).collect();
                let h = hits.get(k - 1).ok_or(Fail(format!("anchor lost: {} has no call #{k} of {name}", fs_.path)))?;
                if *w == "after_call" {
                    h.1 .1
                } else {
                    h.1 .0
                }
            }
            _ => return fail(format!("bad proof anchor `{anchor}`")),
        };
        let mut c2 = c.clone();
        // before_* anchors sit at the start of their statement: bindings of that statement are not yet in scope
        c2.text = fix_at(&c.text, if parts[0].starts_with("after_") { pos + 1 } else { pos });
        c2.place = anchor.clone();
        let idx = all_clauses.len();
        let body = c2.text.trim().to_string();
        all_clauses.push(c2);
        let is_ghost = all_clauses[idx].kind == "ghost";
        let body = if all_clauses[idx].kind == "assert" {
            format!("{{ assert({}); }}", body.trim())
        } else if is_ghost {
            body.trim().trim_start_matches('{').trim_end_matches('}').trim().to_string()
        } else {
            body
        };
        let needs_semi = parts[0] == "loop_end" && parts.get(1).and_then(|k| k.parse::<usize>().ok()).and_then(|k| v.loops.get(k - 1)).map(|l| l.tail_no_semi).unwrap_or(false);
        let pre = if is_ghost { if needs_semi { ";\n        " } else { "\n        " } } else if needs_semi { ";\n        proof " } else { "\n        proof " };
        let t = format!("{pre}{body}\n        ");
        // stmt-start anchors must not land inside an earlier statement's edit; before_* inserts
        // before the statement, after_* after it
        v.seq += 1;
        // insertions *before* a statement must precede every other edit starting at the same byte (e.g. E3's `verif_try!(`)
        let seq = if parts[0].starts_with("before_") { 0 } else { v.seq };
        v.edits.push(Edit { start: pos, end: pos, text: t, rule: "E2".into(), seq, marks: vec![(idx, pre.len(), body.len())] });
    }
    // E13
    if fs_.opts.iter().any(|o| o == "reveal_strlits") {
        let mut lits = v.strlits.clone();
        lits.sort();
        lits.dedup();
        let mut t = String::from("\n        proof {");
        for l in &lits {
            t.push_str(&format!(" reveal_strlit({:?});", l));
        }
        t.push_str(" }");
        v.push(bo + 1, bo + 1, &t, "E13");
        rules.push("E13".into());
    }

    for e in &v.edits {
        if !rules.contains(&e.rule) {
            rules.push(e.rule.clone());
        }
    }
    let lets_dbg = v.lets.clone();
    let lets_k_dbg: Vec<String> = v.lets_k.iter().map(|(n, k, _)| format!("{k}:{n}")).collect();
    let n_closures = v.closures.len();
    let mut edits = v.edits;
    ctx.out.push_str("    ");
    let gb = ctx.out.len();
    let (body, segs, marks) = apply_edits(text, span, &mut edits, gb)?;
    ctx.out.push_str(&body);
    ctx.out.push('\n');
    let mut twin_range = Value::Null;
    if let Some(t) = twin {
        ctx.out.push('\n');
        let t0 = ctx.out.len();
        ctx.out.push_str(&t);
        twin_range = json!([t0, ctx.out.len()]);
    }
    let mut cj = vec![];
    for (i, c) in all_clauses.iter().enumerate() {
        let m: Vec<&(usize, usize, usize)> = marks.iter().filter(|m| m.0 == i).collect();
        let (gs, ge) = match m.first() {
            Some(m) => (m.1, m.1 + m.2),
            None => (0, 0),
        };
        cj.push(json!({"id": c.id, "tags": c.tags, "kind": c.kind, "place": c.place, "gen": [gs, ge], "text": c.text.trim()}));
    }
    for c in &skipped_clauses {
        cj.push(json!({"id": c.id, "tags": c.tags, "kind": c.kind, "place": c.place, "gen": [0, 0], "text": c.text.trim(), "skipped": format!("{} is gone on this tree", c.place)}));
    }
    rules.sort();
    rules.dedup();
    ctx.items.push(json!({
        "kind": "fn", "path": fs_.path, "file": fs_.file, "src": [span.0, span.1],
        "src_line": line_of(text, span.0), "gen": [gen_base, ctx.out.len()],
        "segments": segs, "clauses": cj, "rules": rules, "twin": twin_range,
        "n_loops": fs_.loops.len(), "lets": lets_dbg, "lets_k": lets_k_dbg,
        "closures_total": n_closures, "closures_with_contract": fs_.closure_heads.len(),
    }));
    Ok(())
}

/// A function that cannot be brought under contract on this tree: its signature is kept (with the sidecar's stand-in
/// parameter list, if any), its body is replaced by `unimplemented!()` under `external_body`.  Functions that other
/// extracted functions call (no E9/E12) keep their clauses, so that callers are still verified against the contract;
/// every clause of a stubbed function is reported as UNDECIDED by the driver, never as discharged.
fn gen_stub(ctx: &mut Ctx, fs_: &FnSpec, reason: &str) -> R<()> {
    let gen_base = ctx.out.len();
    let srcfile = fs_.file.clone();
    ctx.src(&srcfile)?;
    let srcs = &ctx.srcs[&srcfile];
    let text = &srcs.text;
    let (attrs, vis, sig, block, span) = match find(&srcs.ast, &fs_.path)? {
        Found::Fn { attrs, vis, sig, block, span, .. } => (attrs, vis, sig, block, span),
        _ => return fail(format!("{} is not a function", fs_.path)),
    };
    let mut edits: Vec<Edit> = vec![];
    let mut seq = 0usize;
    attr_edits(attrs, &mut edits, &mut seq, text);
    if fs_.opts.iter().any(|o| o == "private") {
        if let syn::Visibility::Public(p) = vis {
            let (a, b) = br(p.span());
            seq += 1;
            edits.push(Edit { start: a, end: b, text: String::new(), rule: "E14".into(), seq, marks: vec![] });
        }
    } else {
        vis_edit(vis, &mut edits, &mut seq);
    }
    let hoisted = fs_.opts.iter().any(|o| o == "hoist_txn");
    if let Some(newsig) = &fs_.sig {
        let (ps, pe) = br(sig.paren_token.span.join());
        seq += 1;
        edits.push(Edit { start: ps, end: pe, text: newsig.clone(), rule: "E12".into(), seq, marks: vec![] });
    }
    let retname = fs_.ret.clone().unwrap_or_else(|| "r".into());
    if let syn::ReturnType::Type(_, ty) = &sig.output {
        let (ts, te) = br(ty.span());
        seq += 1;
        edits.push(Edit { start: ts, end: ts, text: format!("({retname}: "), rule: "E2".into(), seq, marks: vec![] });
        seq += 1;
        edits.push(Edit { start: te, end: te, text: ")".into(), rule: "E2".into(), seq, marks: vec![] });
    }
    edits.push(Edit { start: span.0, end: span.0, text: "#[verifier::external_body]\n    ".into(), rule: "STUB".into(), seq: 0, marks: vec![] });
    let (bo, _) = br(block.brace_token.span.open());
    let (_, bc) = br(block.brace_token.span.close());
    let mut clauses: Vec<Clause> = vec![];
    let mut marks = vec![];
    let mut ctext = String::new();
    // keep the contract only when the clauses can still be stated over the (unchanged) parameter list
    let keep = !hoisted && fs_.sig.is_none();
    for c in &fs_.clauses {
        clauses.push(Clause { place: "fn".into(), ..c.clone() });
    }
    if keep {
        let req: Vec<(usize, &Clause)> = clauses.iter().enumerate().filter(|(_, c)| c.kind == "requires").collect();
        let ens: Vec<(usize, &Clause)> = clauses.iter().enumerate().filter(|(_, c)| c.kind == "ensures").collect();
        ctext.push_str(&render_clauses("requires", &req, "        ", &mut marks, 0));
        let l1 = ctext.len();
        ctext.push_str(&render_clauses("ensures", &ens, "        ", &mut marks, l1));
    }
    ctext.push_str("    { unimplemented!() }");
    seq += 1;
    edits.push(Edit { start: bo, end: bc, text: ctext, rule: "STUB".into(), seq, marks });
    ctx.out.push_str("    ");
    let gb = ctx.out.len();
    let (body, segs, _marks) = apply_edits(text, span, &mut edits, gb)?;
    ctx.out.push_str(&body);
    ctx.out.push('\n');
    // every clause of the sidecar (fn-level, loops, closures, proof blocks) is listed, undecided
    let mut cj = vec![];
    let mut all: Vec<Clause> = clauses;
    for (k, cls) in &fs_.loops {
        for c in cls {
            all.push(Clause { place: format!("loop {k}"), ..c.clone() });
        }
    }
    for (k, cls) in &fs_.closures {
        for c in cls {
            all.push(Clause { place: format!("closure {k}"), ..c.clone() });
        }
    }
    for (a, c) in &fs_.proofs {
        all.push(Clause { place: a.clone(), ..c.clone() });
    }
    for cls in fs_.nested.values() {
        for c in cls {
            all.push(c.clone());
        }
    }
    for c in &all {
        if c.kind == "ghost" {
            continue;
        }
        cj.push(json!({"id": c.id, "tags": c.tags, "kind": c.kind, "place": c.place, "gen": [0, 0], "text": c.text.trim()}));
    }
    ctx.trust.push(json!({"kind": "stub", "fn": fs_.path, "text": format!("function {} stubbed on this tree: {}", fs_.path, reason)}));
    ctx.items.push(json!({
        "kind": "fn", "path": fs_.path, "file": fs_.file, "src": [span.0, span.1], "src_line": line_of(text, span.0), "gen": [gen_base, ctx.out.len()],
        "segments": segs, "clauses": cj, "rules": ["STUB"], "twin": Value::Null, "n_loops": 0, "lets": Vec::<String>::new(),
        "closures_total": 0, "closures_with_contract": 0, "stubbed": reason,
    }));
    Ok(())
}

fn gen_item(ctx: &mut Ctx, file: &str, path: &str, opts: &[String], extra: &[Clause]) -> R<()> {
    let file_s = file.to_string();
    ctx.src(&file_s)?;
    let srcs = &ctx.srcs[&file_s];
    let text = &srcs.text;
    let it = match find(&srcs.ast, path)? {
        Found::Item(i) => i,
        _ => return fail(format!("{path} is a function; use `fn`")),
    };
    let span = br(it.span());
    let mut edits: Vec<Edit> = vec![];
    let mut seq = 0usize;
    let mut rules = vec![];
    let mut clauses = vec![];
    let mut ctx_have_const: Option<String> = None;
    if opts.iter().any(|o| o == "auto") {
        rules.push("E15".to_string());
    }
    match it {
        syn::Item::Struct(s) => {
            // `noderive:<Trait>`: that derive is replaced by a hand-written, specified impl in the contract file (A2)
            let dd: Vec<String> = opts.iter().filter_map(|o| o.strip_prefix("noderive:").map(|x| x.to_string())).collect();
            attr_edits_x(&s.attrs, &mut edits, &mut seq, text, &dd);
            for o in opts {
                if let Some(rest) = o.strip_prefix("addfield:") {
                    // ghost field appended to a braced struct (E11)
                    let (fname, fty) = rest.split_once(':').ok_or(Fail("bad addfield".into()))?;
                    if let syn::Fields::Named(n) = &s.fields {
                        let (c, _) = br(n.brace_token.span.close());
                        seq += 1;
                        edits.push(Edit { start: c, end: c, text: format!("    {fname}: {fty},\n"), rule: "E11".into(), seq, marks: vec![] });
                        rules.push("E11".to_string());
                    } else {
                        return fail(format!("anchor lost: {path} is not a braced struct"));
                    }
                }
            }
            vis_edit(&s.vis, &mut edits, &mut seq);
            for f in &s.fields {
                attr_edits(&f.attrs, &mut edits, &mut seq, text);
                vis_edit(&f.vis, &mut edits, &mut seq);
            }
            // E11 retype: `retype:<field>:<NewType>` ; `nogenerics`
            for o in opts {
                if let Some(rest) = o.strip_prefix("retype:") {
                    let (fname, nty) = rest.split_once(':').ok_or(Fail("bad retype".into()))?;
                    let f = s.fields.iter().find(|f| f.ident.as_ref().map(|i| i == fname).unwrap_or(false)).ok_or(Fail(format!("anchor lost: field {fname} of {path}")))?;
                    let (a, b) = br(f.ty.span());
                    seq += 1;
                    edits.push(Edit { start: a, end: b, text: nty.to_string(), rule: "E11".into(), seq, marks: vec![] });
                    rules.push("E11".to_string());
                }
                if o == "nogenerics" {
                    if s.generics.lt_token.is_some() {
                        let (a, b) = br(s.generics.span());
                        seq += 1;
                        edits.push(Edit { start: a, end: b, text: String::new(), rule: "E11".into(), seq, marks: vec![] });
                        rules.push("E11".to_string());
                    }
                }
                if let Some(rest) = o.strip_prefix("tuple_retype:") {
                    // tuple struct field 0
                    let f = s.fields.iter().next().ok_or(Fail("anchor lost: tuple field".into()))?;
                    let (a, b) = br(f.ty.span());
                    seq += 1;
                    edits.push(Edit { start: a, end: b, text: rest.to_string(), rule: "E11".into(), seq, marks: vec![] });
                    rules.push("E11".to_string());
                }
            }
        }
        syn::Item::Enum(s) => {
            attr_edits(&s.attrs, &mut edits, &mut seq, text);
            for v in &s.variants {
                attr_edits(&v.attrs, &mut edits, &mut seq, text);
                for f in &v.fields {
                    attr_edits(&f.attrs, &mut edits, &mut seq, text);
                }
            }
        }
        syn::Item::Type(s) => attr_edits(&s.attrs, &mut edits, &mut seq, text),
        syn::Item::Impl(s) => {
            attr_edits(&s.attrs, &mut edits, &mut seq, text);
            for ii in &s.items {
                if let syn::ImplItem::Fn(f) = ii {
                    attr_edits(&f.attrs, &mut edits, &mut seq, text);
                }
            }
        }
        syn::Item::Const(c) => {
            ctx_have_const = Some(c.ident.to_string());
            attr_edits(&c.attrs, &mut edits, &mut seq, text);
            vis_edit(&c.vis, &mut edits, &mut seq);
            // `&str` consts get 'static
            if let syn::Type::Reference(r) = &*c.ty {
                if r.lifetime.is_none() {
                    let (_, ae) = br(r.and_token.span());
                    seq += 1;
                    edits.push(Edit { start: ae, end: ae, text: "'static ".into(), rule: "E7".into(), seq, marks: vec![] });
                    rules.push("E7".to_string());
                }
            }
            if !extra.is_empty() {
                // E7: const X: T = <call>;  ->  exec const X: T ensures <..> { <call> }
                let (cs, _) = br(c.const_token.span());
                seq += 1;
                edits.push(Edit { start: cs, end: cs, text: "exec ".into(), rule: "E7".into(), seq, marks: vec![] });
                let (es, ee) = br(c.eq_token.span());
                let mut marks = vec![];
                let mut s = String::new();
                for c0 in extra {
                    clauses.push(c0.clone());
                }
                let sel: Vec<(usize, &Clause)> = clauses.iter().enumerate().collect();
                s.push_str(&render_clauses("ensures", &sel, "    ", &mut marks, 0));
                s.push_str("{");
                seq += 1;
                // eat the space before '='
                let mut st = es;
                if st > 0 && text.as_bytes()[st - 1] == b' ' {
                    st -= 1;
                }
                edits.push(Edit { start: st, end: ee, text: s, rule: "E7".into(), seq, marks });
                let (ss, se) = br(c.semi_token.span());
                seq += 1;
                edits.push(Edit { start: ss, end: se, text: " }".into(), rule: "E7".into(), seq, marks: vec![] });
                rules.push("E7".to_string());
            }
        }
        syn::Item::Trait(_) => return fail("traits are written in the contract file, not extracted"),
        _ => return fail(format!("unsupported item kind for {path}")),
    }
    for r in ["E6", "E14"] {
        if !rules.contains(&r.to_string()) && edits.iter().any(|e| e.rule == r) {
            rules.push(r.into());
        }
    }
    let gen_base = ctx.out.len();
    let (body, segs, marks) = apply_edits(text, span, &mut edits, gen_base)?;
    let file_owned = file.to_string();
    let path_owned = path.to_string();
    ctx.out.push_str(&body);
    ctx.out.push('\n');
    if let Some(n) = ctx_have_const {
        ctx.have_consts.push(n);
    }
    let (file, path) = (file_owned.as_str(), path_owned.as_str());
    let mut cj = vec![];
    for (i, c) in clauses.iter().enumerate() {
        let m: Vec<&(usize, usize, usize)> = marks.iter().filter(|m| m.0 == i).collect();
        let (gs, ge) = match m.first() {
            Some(m) => (m.1, m.1 + m.2),
            None => (0, 0),
        };
        cj.push(json!({"id": c.id, "tags": c.tags, "kind": "const_ensures", "place": "const", "gen": [gs, ge], "text": c.text.trim()}));
    }
    rules.sort();
    rules.dedup();
    ctx.items.push(json!({
        "kind": "item", "path": path, "file": file, "src": [span.0, span.1], "src_line": line_of(text, span.0),
        "gen": [gen_base, ctx.out.len()], "segments": segs, "clauses": cj, "rules": rules,
    }));
    Ok(())
}

fn parse_clause_head(rest: &str) -> (String, Vec<String>, String) {
    // `[id tag tag] expr...`
    let rest = rest.trim_start();
    if let Some(r) = rest.strip_prefix('[') {
        if let Some(end) = r.find(']') {
            let inside: Vec<String> = r[..end].split_whitespace().map(|s| s.to_string()).collect();
            let id = inside.first().cloned().unwrap_or_default();
            let tags = inside.iter().skip(1).cloned().collect();
            return (id, tags, r[end + 1..].to_string());
        }
    }
    (String::new(), vec![], rest.to_string())
}

fn run(auto_consts: &Vec<(String, String)>) -> R<Vec<(String, String)>> {
    let args: Vec<String> = std::env::args().collect();
    if args.len() != 6 {
        return fail("usage: tcss-extractor <repo> <verif> <unit.vspec> <out.rs> <out.map.json>");
    }
    let mut ctx = Ctx { repo: args[1].clone(), verif: args[2].clone(), srcs: BTreeMap::new(), out: String::new(), items: vec![], trust: vec![], have_consts: vec![], need_consts: vec![], auto_consts: auto_consts.clone() };
    let spec = fs::read_to_string(&args[3]).map_err(|e| Fail(format!("cannot read {}: {e}", args[3])))?;
    let lines: Vec<&str> = spec.lines().collect();
    let mut i = 0;
    let mut lemma_marks: Vec<Value> = vec![];
    while i < lines.len() {
        let l = lines[i];
        let t = l.trim_start();
        if let Some(d) = t.strip_prefix("//@") {
            let d = d.trim();
            let toks: Vec<&str> = d.split_whitespace().collect();
            match toks.first().copied() {
                Some("include") => {
                    let p = Path::new(&ctx.verif).join(toks[1]);
                    let inc = fs::read_to_string(&p).map_err(|e| Fail(format!("cannot read {}: {e}", p.display())))?;
                    let g0 = ctx.out.len();
                    ctx.out.push_str(&inc);
                    if !inc.ends_with('\n') {
                        ctx.out.push('\n');
                    }
                    ctx.items.push(json!({"kind":"include","path":toks[1],"gen":[g0,ctx.out.len()]}));
                    i += 1;
                }
                Some("item") => {
                    // //@ item <file> <path> [opts]   (optional following block with `ensures` for consts, closed by //@ end)
                    let file = toks.get(1).ok_or(Fail("item: file".into()))?.to_string();
                    let path = toks.get(2).ok_or(Fail("item: path".into()))?.to_string();
                    let opts: Vec<String> = toks.iter().skip(3).map(|s| s.to_string()).collect();
                    let mut extra = vec![];
                    i += 1;
                    if opts.iter().any(|o| o == "with") {
                        while i < lines.len() && !lines[i].trim_start().starts_with("//@") {
                            let ln = lines[i];
                            if let Some(rest) = ln.strip_prefix("ensures") {
                                let (id, tags, text) = parse_clause_head(rest);
                                extra.push(Clause { kind: "const_ensures".into(), id, tags, text, place: "const".into() });
                            } else if let Some(last) = extra.last_mut() {
                                last.text.push('\n');
                                last.text.push_str(ln);
                            }
                            i += 1;
                        }
                        if i < lines.len() && lines[i].trim() == "//@ end" {
                            i += 1;
                        }
                    }
                    gen_item(&mut ctx, &file, &path, &opts, &extra)?;
                }
                Some("fn") => {
                    let mut f = FnSpec { file: toks.get(1).ok_or(Fail("fn: file".into()))?.to_string(), path: toks.get(2).ok_or(Fail("fn: path".into()))?.to_string(), opts: toks.iter().skip(3).map(|s| s.to_string()).collect(), line: i + 1, ..Default::default() };
                    i += 1;
                    // current target for continuation lines
                    enum Cur {
                        None,
                        Fn(usize),
                        Loop(usize, usize),
                        Closure(usize, usize),
                        ClosureHead(usize),
                        Proof(usize),
                        Nested(String, usize),
                        Sig,
                    }
                    let mut cur = Cur::None;
                    loop {
                        if i >= lines.len() {
                            return fail(format!("unterminated //@ fn at line {}", f.line));
                        }
                        let ln = lines[i];
                        if ln.trim() == "//@ end" {
                            i += 1;
                            break;
                        }
                        if ln.trim_start().starts_with("//@") {
                            return fail(format!("directive inside fn block at line {}", i + 1));
                        }
                        if ln.trim_start().starts_with("//") && !ln.starts_with(' ') {
                            i += 1;
                            continue;
                        }
                        let first = ln.split_whitespace().next().unwrap_or("");
                        let at_col0 = !ln.starts_with(' ') && !ln.starts_with('\t') && !ln.is_empty();
                        if at_col0 {
                            let rest = ln[first.len()..].to_string();
                            match first {
                                "requires" | "ensures" | "decreases" => {
                                    let (id, tags, text) = parse_clause_head(&rest);
                                    f.clauses.push(Clause { kind: first.into(), id, tags, text, place: String::new() });
                                    cur = Cur::Fn(f.clauses.len() - 1);
                                }
                                "attr" => {
                                    f.attrs.push(rest.trim().to_string());
                                    cur = Cur::None;
                                }
                                "ret" => {
                                    f.ret = Some(rest.trim().to_string());
                                    cur = Cur::None;
                                }
                                "params" => {
                                    f.params = Some(rest.split_whitespace().map(|s| s.to_string()).collect());
                                    cur = Cur::None;
                                }
                                "locals" => {
                                    // canonical names of the pattern-bound identifiers of the body, in source order (positional binding)
                                    f.locals = Some(rest.split_whitespace().map(|s| s.to_string()).collect());
                                    cur = Cur::None;
                                }
                                "sig" => {
                                    f.sig = Some(rest.trim().to_string());
                                    cur = Cur::Sig;
                                }
                                "loop" => {
                                    let mut it = rest.split_whitespace();
                                    let k: usize = it.next().and_then(|s| s.parse().ok()).ok_or(Fail(format!("bad loop clause at line {}", i + 1)))?;
                                    let kind0 = it.next().ok_or(Fail(format!("bad loop clause at line {}", i + 1)))?;
                                    let kind = if kind0 == "ensures" { "loop_ensures" } else { kind0 };
                                    let after = rest.trim_start();
                                    let after = after[after.find(kind0).unwrap() + kind0.len()..].to_string();
                                    let (id, tags, text) = parse_clause_head(&after);
                                    let v = f.loops.entry(k).or_default();
                                    v.push(Clause { kind: kind.into(), id, tags, text, place: String::new() });
                                    cur = Cur::Loop(k, v.len() - 1);
                                }
                                "closure" => {
                                    let mut it = rest.split_whitespace();
                                    let k: usize = it.next().and_then(|s| s.parse().ok()).ok_or(Fail(format!("bad closure clause at line {}", i + 1)))?;
                                    let kind0 = it.next().ok_or(Fail(format!("bad closure clause at line {}", i + 1)))?;
                                    let after = rest.trim_start();
                                    let after = after[after.find(kind0).unwrap() + kind0.len()..].to_string();
                                    if kind0 == "optional" {
                                        f.closure_optional.push(k);
                                    } else if kind0 == "head" {
                                        f.closure_heads.insert(k, after.trim().to_string());
                                        cur = Cur::ClosureHead(k);
                                    } else {
                                        let (id, tags, text) = parse_clause_head(&after);
                                        let v = f.closures.entry(k).or_default();
                                        v.push(Clause { kind: format!("closure_{kind0}"), id, tags, text, place: String::new() });
                                        cur = Cur::Closure(k, v.len() - 1);
                                    }
                                }
                                "nested" => {
                                    // nested <fn-name> ensures [id tags] expr   (return value is named `o`)
                                    let mut it = rest.split_whitespace();
                                    let name = it.next().ok_or(Fail(format!("bad nested clause at line {}", i + 1)))?.to_string();
                                    let kind0 = it.next().ok_or(Fail(format!("bad nested clause at line {}", i + 1)))?;
                                    let after = rest.trim_start();
                                    let after = after[after.find(kind0).unwrap() + kind0.len()..].to_string();
                                    let (id, tags, text) = parse_clause_head(&after);
                                    let v = f.nested.entry(name.clone()).or_default();
                                    v.push(Clause { kind: format!("nested_{kind0}"), id, tags, text, place: String::new() });
                                    cur = Cur::Nested(name, v.len() - 1);
                                }
                                "assert" => {
                                    // assert <anchor...> [id tags] <expr>  -- a state obligation at a program point (NOT proof glue)
                                    let p0 = rest.find('[').ok_or(Fail(format!("assert needs [id tags] at line {}", i + 1)))?;
                                    let anchor = rest[..p0].trim().to_string();
                                    let (id, tags, text) = parse_clause_head(&rest[p0..]);
                                    f.proofs.push((anchor, Clause { kind: "assert".into(), id, tags, text, place: String::new() }));
                                    cur = Cur::Proof(f.proofs.len() - 1);
                                }
                                "proof" | "ghost" => {
                                    // proof <anchor...> [id tags] {   (ghost: the block's statements are inserted bare, e.g. `let ghost x = y;`)
                                    let (anchor, after) = match rest.find('[') {
                                        Some(p) => (rest[..p].trim().to_string(), rest[p..].to_string()),
                                        None => {
                                            let p = rest.find('{').ok_or(Fail(format!("proof needs {{ at line {}", i + 1)))?;
                                            (rest[..p].trim().to_string(), rest[p..].to_string())
                                        }
                                    };
                                    let (id, tags, text) = parse_clause_head(&after);
                                    f.proofs.push((anchor, Clause { kind: first.into(), id, tags, text, place: String::new() }));
                                    cur = Cur::Proof(f.proofs.len() - 1);
                                }
                                "}" => {
                                    if let Cur::Proof(p) = cur {
                                        f.proofs[p].1.text.push_str("\n        }");
                                        cur = Cur::None;
                                    } else {
                                        return fail(format!("stray }} at line {}", i + 1));
                                    }
                                }
                                _ => return fail(format!("unknown keyword `{first}` at line {} of the contract file", i + 1)),
                            }
                        } else {
                            let add = |s: &mut String| {
                                s.push('\n');
                                s.push_str(ln);
                            };
                            match &cur {
                                Cur::Fn(k) => add(&mut f.clauses[*k].text),
                                Cur::Loop(k, j) => add(&mut f.loops.get_mut(k).unwrap()[*j].text),
                                Cur::Closure(k, j) => add(&mut f.closures.get_mut(k).unwrap()[*j].text),
                                Cur::ClosureHead(k) => add(f.closure_heads.get_mut(k).unwrap()),
                                Cur::Proof(p) => add(&mut f.proofs[*p].1.text),
                                Cur::Nested(n, j) => add(&mut f.nested.get_mut(n).unwrap()[*j].text),
                                Cur::Sig => add(f.sig.as_mut().unwrap()),
                                Cur::None => {
                                    if !ln.trim().is_empty() {
                                        return fail(format!("continuation without clause at line {}", i + 1));
                                    }
                                }
                            }
                        }
                        i += 1;
                    }
                    let stub_list: Vec<String> = std::env::var("TCSS_STUB").unwrap_or_default().split(',').map(|x| x.trim().to_string()).filter(|x| !x.is_empty()).collect();
                    let key = format!("{}#{}", f.file, f.path);
                    if stub_list.iter().any(|x| *x == key) {
                        gen_stub(&mut ctx, &f, "the body uses a construct outside the verifier's reach on this tree (see the driver's message)")?;
                    } else {
                        let save_out = ctx.out.len();
                        let save_items = ctx.items.len();
                        let save_trust = ctx.trust.len();
                        match gen_fn(&mut ctx, &f) {
                            Ok(()) => {}
                            Err(Fail(m)) => {
                                // a lost anchor / unsupported shape in ONE function: that function is left to the bounded legs,
                                // the rest of the unit is still verified
                                ctx.out.truncate(save_out);
                                ctx.items.truncate(save_items);
                                ctx.trust.truncate(save_trust);
                                gen_stub(&mut ctx, &f, &m)?;
                            }
                        }
                    }
                }
                Some("autoconsts") => {
                    // E15: constants discovered in a first pass (used by extracted bodies, defined in the same file)
                    let list = ctx.auto_consts.clone();
                    for (file, name) in list {
                        gen_item(&mut ctx, &file, &name, &["auto".to_string()], &[])?;
                    }
                    i += 1;
                }
                Some("lemma") => {
                    // //@ lemma [id tags]  -- marks the next `proof fn` as a named obligation
                    let (id, tags, _) = parse_clause_head(d.strip_prefix("lemma").unwrap());
                    lemma_marks.push(json!({"id": id, "tags": tags, "gen_line": line_of(&ctx.out, ctx.out.len()) }));
                    i += 1;
                }
                Some("trust") => {
                    // //@ trust <kind> <id> : free text  -- declared trusted-base entry for the next item
                    ctx.trust.push(json!({"kind": toks.get(1).unwrap_or(&""), "id": toks.get(2).unwrap_or(&""), "text": d, "gen_line": line_of(&ctx.out, ctx.out.len())}));
                    i += 1;
                }
                Some(other) => return fail(format!("unknown directive //@ {other} at line {}", i + 1)),
                None => {
                    i += 1;
                }
            }
        } else {
            ctx.out.push_str(l);
            ctx.out.push('\n');
            i += 1;
        }
    }
    // line numbers for clauses
    let out = ctx.out.clone();
    let mut items = ctx.items.clone();
    for it in items.iter_mut() {
        if let Some(cl) = it.get_mut("clauses").and_then(|c| c.as_array_mut()) {
            for c in cl.iter_mut() {
                let g0 = c["gen"][0].as_u64().unwrap() as usize;
                let g1 = c["gen"][1].as_u64().unwrap() as usize;
                c["gen_lines"] = json!([line_of(&out, g0), line_of(&out, g1)]);
            }
        }
        let g0 = it["gen"][0].as_u64().unwrap() as usize;
        let g1 = it["gen"][1].as_u64().unwrap() as usize;
        it["gen_lines"] = json!([line_of(&out, g0), line_of(&out, g1.saturating_sub(1))]);
    }
    fs::write(&args[4], &out).map_err(|e| Fail(format!("write {}: {e}", args[4])))?;
    let map = json!({"spec": args[3], "gen_file": args[4], "items": items, "lemmas": lemma_marks, "trust_decl": ctx.trust});
    fs::write(&args[5], serde_json::to_string_pretty(&map).unwrap()).map_err(|e| Fail(format!("write {}: {e}", args[5])))?;
    Ok(ctx.need_consts.clone())
}

fn main() {
    // pass 1 discovers constants the bodies need (E15); pass 2 emits them at the `//@ autoconsts` directive
    let first = run(&vec![]);
    let res = match first {
        Ok(need) if !need.is_empty() => run(&need).map(|_| ()),
        Ok(_) => Ok(()),
        Err(e) => Err(e),
    };
    match res {
        Ok(()) => {}
        Err(Fail(m)) => {
            eprintln!("EXTRACT-FAIL: {m}");
            std::process::exit(3);
        }
    }
}
